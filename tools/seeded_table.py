#!/usr/bin/env python3
"""Regenerate the table of seeded changes inside DESIGN.md from
seeded/*/meta.json (between the SEEDED_TABLE markers)."""
import glob, json, os, re
HERE = os.path.dirname(os.path.dirname(os.path.abspath(__file__)))
rows = []
for d in sorted(glob.glob(os.path.join(HERE, 'seeded', '*'))):
    mp = os.path.join(d, 'meta.json')
    if not os.path.exists(mp):
        continue
    m = json.load(open(mp))
    det = m.get('detected_by', {})
    by = ', '.join(sorted(k for k, v in det.items() if v)) or '—'
    missed = ', '.join(sorted(k for k, v in det.items() if not v))
    summ = (m.get('summary') or '').replace('|', '/').replace('\n', ' ')
    needs = (m.get('needs') or m.get('needs_to_manifest') or '').replace('|', '/').replace('\n', ' ')
    rows.append(f"| `{os.path.basename(d)}` | {m.get('property')} | {summ[:150]} | {needs[:150]} | {by} |" )
table = ("Seeded changes kept under `seeded/` (all confirmed: patch applies, 105 baseline tests pass, demo exits 0 clean / 1 patched) and the checks that detect them at the quick tier:\n\n"
         "| change | breaks | what was changed | needs | detected by |\n|---|---|---|---|---|\n" + '\n'.join(rows) + '\n')
p = os.path.join(HERE, 'DESIGN.md')
s = open(p).read()
if 'SEEDED_TABLE_PLACEHOLDER' in s:
    s = s.replace('SEEDED_TABLE_PLACEHOLDER', '<!-- SEEDED_TABLE_BEGIN -->\n' + table + '<!-- SEEDED_TABLE_END -->')
else:
    s = re.sub(r'<!-- SEEDED_TABLE_BEGIN -->.*?<!-- SEEDED_TABLE_END -->',
               lambda m_: '<!-- SEEDED_TABLE_BEGIN -->\n' + table + '<!-- SEEDED_TABLE_END -->', s, flags=re.S)
open(p, 'w').write(s)
print(len(rows), 'rows')
