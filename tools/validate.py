#!/opt/veriftools/pyvenv/bin/python
import json, sys, glob
import jsonschema
m = json.load(open('/verif/MANIFEST.json'))
jsonschema.validate(m, json.load(open('/root/.vp/MANIFEST.schema.json')))
es = json.load(open('/root/.vp/EVIDENCE.schema.json'))
for p in sorted(glob.glob('/verif/evidence/*.json')):
    jsonschema.validate(json.load(open(p)), es)
    print('ok', p)
print('manifest ok')
