#!/venv/bin/python
"""tools/seed_eval.py [--tier quick] [--checks C01,C02] [--keep] DIR...

Confirm a seeded change delivered by a sub-agent and run checks against it.
For each DIR (containing patch.diff, demo.py, meta.json):
  1. copy /repo's tracked files to a scratch dir (outside /repo, /verif),
     run demo.py there: must exit 0 on the clean copy;
  2. apply patch.diff to the copy; run the baseline test-suite in the copy:
     must still report 105 passed; run demo.py: must exit 1;
  3. run ./check <ID> against the copy (DD_REPO=<copy>); report CAUGHT/MISSED;
  4. with --keep and all of 1-2 confirmed: store as /verif/seeded/<name>/.
Nothing is ever applied to /repo.
"""
import argparse
import json
import os
import re
import shutil
import subprocess
import sys
import tempfile
import time

VERIF = os.path.dirname(os.path.dirname(os.path.abspath(__file__)))


def sh(cmd, **kw):
    return subprocess.run(cmd, shell=True, capture_output=True, text=True,
                          **kw)


def evaluate(d, a):
    d = os.path.abspath(d)
    name = os.path.basename(d.rstrip('/'))
    meta = json.load(open(os.path.join(d, 'meta.json')))
    pid = meta['property']
    checks = a.checks.split(',') if a.checks else [pid]
    tmp = tempfile.mkdtemp(prefix='ddseed-', dir='/tmp')
    res = dict(name=name, property=pid)
    try:
        repo = os.path.join(tmp, 'repo')
        out = os.path.join(tmp, 'out')
        os.makedirs(repo)
        os.makedirs(out)
        sh(f'cd /repo && git ls-files -z | xargs -0 cp --parents -t {repo}')
        env = dict(os.environ, PYTHONPATH=repo)
        env.pop('DD_VERIF', None)
        demo = os.path.join(d, 'demo.py')
        r0 = subprocess.run(['/venv/bin/python', demo], cwd=tmp, env=env,
                            capture_output=True, text=True, timeout=600)
        res['demo_clean_rc'] = r0.returncode
        r = sh(f'cd {repo} && git init -q . && git apply --whitespace=nowarn '
               f'{d}/patch.diff')
        if r.returncode:
            # the patch may have been written against an earlier commit
            r = sh(f'cd {repo} && patch -p1 --fuzz=3 --no-backup-if-mismatch '
                   f'< {d}/patch.diff')
            res['applied_with_fuzz'] = True
        if r.returncode:
            res['status'] = 'PATCH-FAILED'
            res['msg'] = r.stderr[-300:]
            return res
        t = sh(f'cd {repo} && PYTHONPATH={repo} /venv/bin/python -m pytest -q '
               f'-p no:cacheprovider --timeout=900 '
               f'--continue-on-collection-errors 2>&1 | tail -1')
        m = re.search(r'(\d+) passed', t.stdout)
        res['tests_passed'] = int(m.group(1)) if m else -1
        r1 = subprocess.run(['/venv/bin/python', demo], cwd=tmp, env=env,
                            capture_output=True, text=True, timeout=600)
        res['demo_patched_rc'] = r1.returncode
        res['confirmed'] = (res['demo_clean_rc'] == 0 and
                            res['demo_patched_rc'] == 1 and
                            res['tests_passed'] == 105)
        ran = []
        for c in checks:
            t0 = time.time()
            e = dict(os.environ, DD_REPO=repo, VERIF_OUT=out)
            p = subprocess.run([os.path.join(VERIF, 'check'), c,
                                '--tier', a.tier], env=e,
                               capture_output=True, text=True)
            buckets = [l[15:110] for l in p.stdout.splitlines()
                       if l.startswith('failure bucket')]
            res[c] = dict(rc=p.returncode, wall=round(time.time() - t0, 1),
                          buckets=buckets[:3])
            if p.returncode == 2:
                res[c]['err'] = p.stdout[-400:]
            ran.append(f'./check {c} --tier {a.tier} -> exit {p.returncode}')
            if a.keep and p.returncode == 1:
                dst = os.path.join(VERIF, 'replays', 'regress')
                os.makedirs(dst, exist_ok=True)
                for k, l in enumerate(
                        [l for l in p.stdout.splitlines()
                         if l.startswith('VIOLATION')][:1]):
                    src = l.split('replay=')[1]
                    tgt = os.path.join(dst, f'{c}-{name}-{k}.json')
                    if os.path.exists(src) and \
                            os.path.abspath(src) != os.path.abspath(tgt):
                        shutil.copy(src, tgt)
        res['caught'] = any(res[c]['rc'] == 1 for c in checks)
        if a.keep and res['confirmed']:
            dst = os.path.join(VERIF, 'seeded', name)
            os.makedirs(dst, exist_ok=True)
            shutil.copy(os.path.join(d, 'patch.diff'), dst)
            shutil.copy(demo, dst)
            old = {}
            if os.path.exists(os.path.join(dst, 'meta.json')):
                old = json.load(open(os.path.join(dst, 'meta.json')))
            meta.update(
                breaks_property=pid,
                needs_to_manifest=meta.get('needs'),
                confirmed=dict(
                    baseline_tests_passed=res['tests_passed'],
                    demo_exit_clean=res['demo_clean_rc'],
                    demo_exit_patched=res['demo_patched_rc']),
                what_i_ran=[
                    'copy of /repo tracked files in a scratch dir under /tmp',
                    'git apply patch.diff',
                    'PYTHONPATH=<copy> /venv/bin/python -m pytest -q -p '
                    'no:cacheprovider --timeout=900 '
                    '--continue-on-collection-errors',
                    'PYTHONPATH=<copy> /venv/bin/python demo.py (clean and '
                    'patched)'] + ran,
                checks=sorted(set(old.get('checks', [])) | set(
                    c for c in checks if res[c]['rc'] == 1)) or checks,
                detected_by={**old.get('detected_by', {}),
                             **{c: (res[c]['rc'] == 1) for c in checks}})
            json.dump(meta, open(os.path.join(dst, 'meta.json'), 'w'),
                      indent=1)
        return res
    finally:
        shutil.rmtree(tmp, ignore_errors=True)


def main():
    ap = argparse.ArgumentParser()
    ap.add_argument('dirs', nargs='+')
    ap.add_argument('--tier', default='quick')
    ap.add_argument('--checks', default='')
    ap.add_argument('--keep', action='store_true')
    a = ap.parse_args()
    for d in a.dirs:
        r = evaluate(d, a)
        tag = 'CAUGHT' if r.get('caught') else 'MISSED'
        if not r.get('confirmed'):
            tag += '(unconfirmed)'
        print(tag, json.dumps(r))
        sys.stdout.flush()


if __name__ == '__main__':
    main()
