#!/venv/bin/python
"""tools/seed_regress.py [-j N] [pattern]

Re-run, for every kept seeded change under /verif/seeded, the checks that
are recorded as detecting it (scratch copy + DD_REPO, nothing applied to
/repo) and list those that are no longer detected."""
import argparse
import fnmatch
import json
import os
import sys
from concurrent.futures import ThreadPoolExecutor

sys.path.insert(0, os.path.dirname(os.path.abspath(__file__)))
import seed_eval  # noqa: E402

VERIF = seed_eval.VERIF


def one(name):
    d = os.path.join(VERIF, 'seeded', name)
    meta = json.load(open(os.path.join(d, 'meta.json')))
    det = [c for c, ok in meta.get('detected_by', {}).items() if ok]
    own = meta['property']
    checks = [own] if own in det or not det else det[:1]

    class A:
        tier = 'quick'
        keep = False
    A.checks = ','.join(checks)
    res = seed_eval.evaluate(d, A)
    return name, checks, res


def main():
    ap = argparse.ArgumentParser()
    ap.add_argument('pattern', nargs='?', default='*')
    ap.add_argument('-j', type=int, default=3)
    a = ap.parse_args()
    names = sorted(n for n in os.listdir(os.path.join(VERIF, 'seeded'))
                   if fnmatch.fnmatch(n, a.pattern))
    missed = []
    with ThreadPoolExecutor(a.j) as ex:
        for name, checks, res in ex.map(one, names):
            ok = res.get('caught')
            print(('CAUGHT ' if ok else 'MISSED ') + name, checks,
                  {c: res.get(c, {}).get('rc') for c in checks},
                  res.get('status', ''), flush=True)
            if not ok:
                missed.append(name)
    print(f'{len(names) - len(missed)}/{len(names)} detected; missed: '
          f'{missed}')


if __name__ == '__main__':
    main()
