#!/usr/bin/env python3
"""tools/mkpatch.py <out.diff> <file> <<< python: s = s.replace(...)
Reads a python snippet from stdin that transforms variable `s` (file text)."""
import sys, subprocess, tempfile, os, shutil
out, rel = sys.argv[1:3]
code = sys.stdin.read()
s = open(f'/repo/{rel}').read()
orig = s
ns = dict(s=s)
exec(code, ns)
s = ns['s']
assert s != orig, 'no change'
compile(s, rel, 'exec') if rel.endswith('.py') else None
tmp = tempfile.mkdtemp()
for side, txt in (('a', orig), ('b', s)):
    p = os.path.join(tmp, side, rel)
    os.makedirs(os.path.dirname(p))
    open(p, 'w').write(txt)
r = subprocess.run(['diff', '-u', f'a/{rel}', f'b/{rel}'], cwd=tmp, capture_output=True, text=True)
open(out, 'w').write(r.stdout)
shutil.rmtree(tmp)
print(out, sum(1 for l in r.stdout.splitlines() if l[:1] in '+-' and l[:3] not in ('+++', '---')), 'lines')
