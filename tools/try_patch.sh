#!/bin/sh
# tools/try_patch.sh <patch.diff> <ID> [ID...]   (env TIER=quick|thorough)
# Apply a patch to a scratch copy of /repo (never to /repo itself), run the
# given checks against the copy, and remove the copy.  Evidence and replays
# of such runs go to a scratch directory, not to /verif.
set -u
patch="$(realpath "$1")"; shift
here="$(cd "$(dirname "$0")/.." && pwd)"
tmp="$(mktemp -d /tmp/ddmut-XXXXXX)"
trap 'rm -rf "$tmp"' EXIT
mkdir "$tmp/repo" "$tmp/out"
(cd /repo && git ls-files -z | xargs -0 cp --parents -t "$tmp/repo")
(cd "$tmp/repo" && git init -q . && git apply --whitespace=nowarn "$patch") || { echo "PATCH-FAILED"; exit 3; }
rc=0
for id in "$@"; do
  DD_REPO="$tmp/repo" VERIF_OUT="$tmp/out" "$here/check" "$id" --tier "${TIER:-quick}" | grep -v '^failure bucket' | tail -4
  r=$?
done
ls "$tmp/out/replays" 2>/dev/null | head
if [ -n "${KEEP_REPLAYS:-}" ]; then mkdir -p "$KEEP_REPLAYS"; cp "$tmp"/out/replays/*.json "$KEEP_REPLAYS"/ 2>/dev/null; fi
exit 0
