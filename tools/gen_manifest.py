#!/venv/bin/python
"""Regenerate MANIFEST.json from the property modules that exist."""
import importlib
import json
import os
import sys

HERE = os.path.dirname(os.path.dirname(os.path.abspath(__file__)))
sys.path.insert(0, HERE)

ALL = [f'C{k:02d}' for k in range(1, 20)]
BASELINE = ('cd /repo && env -u DD_VERIF /venv/bin/python -m pytest -ra -q '
            '-p no:cacheprovider --timeout=900 '
            '--continue-on-collection-errors')


def main():
    checks = []
    na = []
    for pid in ALL:
        path = os.path.join(HERE, 'harness', 'props', pid.lower() + '.py')
        if not os.path.exists(path):
            na.append(dict(property_id=pid,
                           reason='check not built yet (planned, see DESIGN.md section 3)'))
            continue
        src = open(path).read()
        ns = {}
        # read constants without importing dd
        import ast
        tree = ast.parse(src)
        for node in tree.body:
            if isinstance(node, ast.Assign) and len(node.targets) == 1 \
                    and isinstance(node.targets[0], ast.Name) \
                    and node.targets[0].id in (
                        'ID', 'LEVEL', 'LEVEL_TEXT', 'LEVEL_NOTE',
                        'TECHNIQUE', 'DESIGN_REF', 'NOT_APPLICABLE'):
                ns[node.targets[0].id] = ast.literal_eval(node.value)
        if ns.get('NOT_APPLICABLE'):
            na.append(dict(property_id=pid, reason=ns['NOT_APPLICABLE']))
            continue
        checks.append(dict(
            property_id=pid,
            quick_cmd=f'./check {pid} --tier quick',
            thorough_cmd=f'./check {pid} --tier thorough',
            evidence_file=f'evidence/{pid}.json',
            replay_cmd_template=f'./check {pid} --replay {{path}}',
            engine='harness',
            level_claimed=dict(
                category=ns.get('LEVEL', 'exploration'),
                text=ns.get('LEVEL_TEXT', 'generated-input search against an explicit oracle; holds on everything explored, no absence claim beyond the enumerated bounds'),
                design_ref=ns.get('DESIGN_REF', f'DESIGN.md section 3/{pid}')),
            level_note=ns.get('LEVEL_NOTE', 'trusted: harness/tt.py truth-table oracle, harness/denote.py succ()-walk, harness/inv.py invariants'),
            technique=ns.get('TECHNIQUE', 'property-based testing: exhaustive small-domain enumeration + Hypothesis generation against a truth-table oracle')))
    m = dict(
        version=1,
        setup_cmd='/venv/bin/python -c "import hypothesis" 2>/dev/null || /venv/bin/pip install --no-index --find-links /opt/veriftools/wheels hypothesis; /venv/bin/python -c "import sys; sys.path.insert(0, \'/verif\'); from harness import env, tt; env.setup(); tt.selftest(); import hypothesis, networkx"',
        hooks=dict(
            guard='DD_VERIF',
            enable='checks set DD_VERIF=1 in worker processes; no source hook is currently needed (instrumentation points are module globals replaced from the harness)',
            baseline_off_cmd=BASELINE,
            source_commits=[],
            add_only=True),
        engines=[dict(
            name='harness', path='harness/',
            serves_properties=[c['property_id'] for c in checks],
            kind_free_text='Python: truth-table oracle, independent evaluators and invariants, exhaustive enumerators, Hypothesis strategies, history engine, 16-process runner')],
        checks=checks,
        notes='All checks: ./check <ID> --tier quick|thorough; VERIF_SEED selects sampled parts; DD_REPO (default /repo) selects the tree under test.',
        not_applicable=na)
    with open(os.path.join(HERE, 'MANIFEST.json'), 'w') as f:
        json.dump(m, f, indent=1)
    print('claimed:', [c['property_id'] for c in checks])


main()
