#!/venv/bin/python
"""Planted-fault self-test.

selftest/run.py [--tests] [--tier quick] [--keep-replays] [PATTERN ...]

For every selftest/patches/<ID>-<name>.diff (and seeded/<id>/patch.diff with
--seeded): copy /repo's tracked files to a scratch directory outside /repo
and /verif, apply the patch there, optionally run the repository's baseline
tests in the copy (they must still pass: 105), run the property's check
against the copy (DD_REPO=<copy>) and require exit 1 with a VIOLATION line.
The copy is removed afterwards.  Nothing is ever applied to /repo.
"""
import argparse
import fnmatch
import glob
import json
import os
import re
import shutil
import subprocess
import sys
import tempfile
import time

HERE = os.path.dirname(os.path.abspath(__file__))
VERIF = os.path.dirname(HERE)


def sh(cmd, **kw):
    return subprocess.run(cmd, shell=True, capture_output=True, text=True,
                          **kw)


def one(patch, pids, a):
    tmp = tempfile.mkdtemp(prefix='ddmut-', dir='/tmp')
    try:
        repo = os.path.join(tmp, 'repo')
        out = os.path.join(tmp, 'out')
        os.makedirs(repo)
        os.makedirs(out)
        r = sh(f'cd /repo && git ls-files -z | xargs -0 cp --parents -t {repo}')
        r = sh(f'cd {repo} && git init -q . && git apply --whitespace=nowarn '
               f'{patch}')
        if r.returncode:
            return dict(patch=patch, status='PATCH-FAILED', msg=r.stderr[-300:])
        res = dict(patch=os.path.relpath(patch, VERIF))
        if a.tests:
            t = sh(f'cd {repo} && env -u DD_VERIF /venv/bin/python -m pytest -q '
                   f'-p no:cacheprovider --timeout=900 '
                   f'--continue-on-collection-errors 2>&1 | tail -1')
            m = re.search(r'(\d+) passed', t.stdout)
            res['tests_passed'] = int(m.group(1)) if m else -1
        for pid in pids:
            t0 = time.time()
            e = dict(os.environ, DD_REPO=repo, VERIF_OUT=out)
            p = subprocess.run([os.path.join(VERIF, 'check'), pid,
                                '--tier', a.tier], env=e,
                               capture_output=True, text=True)
            viol = [l for l in p.stdout.splitlines()
                    if l.startswith('VIOLATION')]
            buckets = [l for l in p.stdout.splitlines()
                       if l.startswith('failure bucket')]
            res[pid] = dict(rc=p.returncode, violations=len(viol),
                            wall=round(time.time() - t0, 1),
                            buckets=[b[15:95] for b in buckets[:4]])
            if p.returncode == 2:
                res[pid]['err'] = p.stdout[-600:]
            if a.keep_replays and viol:
                dst = os.path.join(VERIF, 'replays', 'regress')
                os.makedirs(dst, exist_ok=True)
                tag = os.path.basename(patch).replace('.diff', '')
                if tag == 'patch':
                    tag = os.path.basename(os.path.dirname(patch))
                for k, l in enumerate(viol[:2]):
                    src = l.split('replay=')[1]
                    if os.path.exists(src):
                        shutil.copy(src, os.path.join(
                            dst, f'{pid}-{tag}-{k}.json'))
        return res
    finally:
        shutil.rmtree(tmp, ignore_errors=True)


def main():
    ap = argparse.ArgumentParser()
    ap.add_argument('patterns', nargs='*')
    ap.add_argument('--tests', action='store_true')
    ap.add_argument('--tier', default='quick')
    ap.add_argument('--keep-replays', action='store_true')
    ap.add_argument('--seeded', action='store_true')
    a = ap.parse_args()
    items = []
    for p in sorted(glob.glob(os.path.join(HERE, 'patches', '*.diff'))):
        pid = os.path.basename(p).split('-')[0]
        items.append((p, [pid]))
    if a.seeded:
        for d in sorted(glob.glob(os.path.join(VERIF, 'seeded', '*'))):
            mp = os.path.join(d, 'meta.json')
            if os.path.exists(mp):
                m = json.load(open(mp))
                items.append((os.path.join(d, 'patch.diff'),
                              m.get('checks') or [m['property']]))
    if a.patterns:
        items = [it for it in items
                 if any(fnmatch.fnmatch(os.path.relpath(it[0], VERIF),
                                        f'*{pt}*') for pt in a.patterns)]
    bad = 0
    for patch, pids in items:
        r = one(patch, pids, a)
        caught = any(isinstance(v, dict) and v.get('rc') == 1
                     for v in r.values())
        if not caught:
            bad += 1
        print(('CAUGHT ' if caught else 'MISSED ') + json.dumps(r))
        sys.stdout.flush()
    print(f'{len(items) - bad}/{len(items)} caught')
    return 1 if bad else 0


sys.exit(main())
