"""Locate the code under test and silence its loggers.

`import dd` must resolve to $DD_REPO (default /repo), i.e. the current
working tree, never to a snapshot or an installed copy.
"""
import logging
import os
import sys
import warnings

VERIF = os.path.dirname(os.path.dirname(os.path.abspath(__file__)))
DD_REPO = os.path.abspath(os.environ.get('DD_REPO', '/repo'))


class HarnessError(Exception):
    """The harness itself is broken (exit 2, never a VIOLATION)."""


def setup():
    if sys.path[0] != DD_REPO:
        sys.path.insert(0, DD_REPO)
    for k in list(sys.modules):
        if k == 'dd' or k.startswith('dd.'):
            m = sys.modules[k]
            f = getattr(m, '__file__', None) or ''
            if not os.path.abspath(f).startswith(DD_REPO + os.sep):
                del sys.modules[k]
    import dd
    f = os.path.abspath(dd.__file__)
    if not f.startswith(DD_REPO + os.sep):
        raise HarnessError(
            f'dd imported from {f}, expected under {DD_REPO}')
    for name in ('dd', 'dd.bdd', 'dd.autoref', 'dd.mdd', 'dd.dddmp',
                 'dd._copy', 'dd._parser', 'astutils', 'ply'):
        logging.getLogger(name).setLevel(logging.CRITICAL)
    logging.getLogger('dd.dddmp.parser_log').setLevel(logging.CRITICAL)
    logging.getLogger('dd.dddmp.lex_log').setLevel(logging.CRITICAL)
    os.environ.setdefault('DD_VERIF', '1')
    return dd
