"""Formula generator for C05: AST -> (string, truth table).

The oracle value is computed on the AST; the string is produced by a
printer that inserts parentheses only where the *documented* precedence
table (doc.md, "Syntax for quantified Boolean formulas") makes them
necessary:

    lowest   :            (binder bodies extend as far right as possible)
             <=> <->
             => ->
             -
             # ^
             \\/ | ||
             /\\ & &&
    highest  ~ !

All binary operators are left-associative.  This is not a second parser:
nothing here reads a formula string.
"""
from . import tt

# level -> (connective, spellings); higher binds tighter
LEVELS = {
    1: ('equiv', ['<=>', '<->']),
    2: ('implies', ['=>', '->']),
    3: ('diff', ['-']),
    4: ('xor', ['#', '^']),
    5: ('or', ['\\/', '|', '||']),
    6: ('and', ['/\\', '&', '&&']),
}
NOT_LEVEL = 7
SPELLING_LEVEL = {s: l for l, (_, ss) in LEVELS.items() for s in ss}
CONNECTIVE = {
    'equiv': tt.c_equiv, 'implies': tt.c_implies, 'diff': tt.c_diff,
    'xor': tt.c_xor, 'or': tt.c_or, 'and': tt.c_and}
ALL_BINARY_SPELLINGS = sorted(SPELLING_LEVEL)
NOT_SPELLINGS = ['~', '!']
TRUE_SPELLINGS = ['TRUE', 'True']
FALSE_SPELLINGS = ['FALSE', 'False']


# ----------------------------------------------------------------- AST
# ('const', bool, spelling)
# ('var', name)
# ('ref', k, style)            k indexes the list of existing nodes
# ('not', spelling, e)
# ('bin', spelling, l, r)
# ('ite', a, b, c)
# ('quant', 'A'|'E', [names], body)
# ('subst', [(new, old), ...], body)
# ('paren', e)                 redundant parentheses


def evaluate(e, env):
    """env: dict(n=, idx={name: j}, refs=[(int node, table), ...])."""
    n = env['n']
    F = tt.full(n)
    k = e[0]
    if k == 'const':
        return F if e[1] else 0
    if k == 'var':
        return tt.var(n, env['idx'][e[1]])
    if k == 'ref':
        return env['refs'][e[1]][1]
    if k == 'not':
        return ~evaluate(e[2], env) & F
    if k == 'bin':
        fn = CONNECTIVE[LEVELS[SPELLING_LEVEL[e[1]]][0]]
        return fn(evaluate(e[2], env), evaluate(e[3], env), n)
    if k == 'ite':
        return tt.ite(evaluate(e[1], env), evaluate(e[2], env),
                      evaluate(e[3], env), n)
    if k == 'quant':
        js = [env['idx'][x] for x in e[2]]
        t = evaluate(e[3], env)
        return tt.forall(t, n, js) if e[1] == 'A' else tt.exists(t, n, js)
    if k == 'subst':
        t = evaluate(e[2], env)
        return tt.rename(t, n, {env['idx'][old]: env['idx'][new]
                                for new, old in e[1]})
    if k == 'paren':
        return evaluate(e[1], env)
    raise ValueError(k)


def strip(e):
    """Drop redundant-parentheses nodes (for classification)."""
    while e[0] == 'paren':
        e = e[1]
    return e


def level_of(e):
    """Binding strength of the top construct as printed; None for
    self-delimiting forms."""
    k = e[0]
    if k == 'bin':
        return SPELLING_LEVEL[e[1]]
    if k == 'not':
        return NOT_LEVEL
    if k in ('quant', 'subst'):
        return 0
    return None


class Printer:
    """Token list with minimal parentheses."""

    def __init__(self, env):
        self.env = env
        self.adjacent = 0     # operators adjacent without parentheses

    def tokens(self, e):
        toks, _ = self._p(e)
        return toks

    def _wrap(self, toks):
        return ['('] + toks + [')']

    def _p(self, e):
        """Return (tokens, open_right): open_right means the printed form
        ends in an unparenthesised binder body."""
        k = e[0]
        if k == 'const':
            return [e[2]], False
        if k == 'var':
            return [e[1]], False
        if k == 'ref':
            node = self.env['refs'][e[1]][0]
            if node < 0:
                return (['@', '-', str(-node)] if e[2] % 2
                        else ['@', f'-{-node}']), False
            return ['@', str(node)], False
        if k == 'paren':
            toks, _ = self._p(e[1])
            return self._wrap(toks), False
        if k == 'ite':
            out = ['ite', '(']
            for i, a in enumerate(e[1:4]):
                toks, _ = self._p(a)
                out += toks
                out.append(',' if i < 2 else ')')
            return out, False
        if k == 'quant':
            out = ['\\A' if e[1] == 'A' else '\\E']
            for i, x in enumerate(e[2]):
                if i:
                    out.append(',')
                out.append(x)
            out.append(':')
            toks, _ = self._p(e[3])
            return out + toks, True
        if k == 'subst':
            out = ['\\S']
            for i, (new, old) in enumerate(e[1]):
                if i:
                    out.append(',')
                out += [new, '/', old]
            out.append(':')
            toks, _ = self._p(e[2])
            return out + toks, True
        if k == 'not':
            toks, opn = self._p(e[2])
            if e[2][0] == 'bin':
                return [e[1]] + self._wrap(toks), False
            if e[2][0] in ('bin', 'not', 'quant', 'subst'):
                self.adjacent += 1
            return [e[1]] + toks, opn
        if k == 'bin':
            L = SPELLING_LEVEL[e[1]]
            lt, lopen = self._p(e[2])
            ll = level_of(e[2])
            if lopen or (ll is not None and ll < L):
                lt = self._wrap(lt)
            elif ll is not None:
                self.adjacent += 1
            rt, ropen = self._p(e[3])
            rl = level_of(e[3])
            if e[3][0] == 'bin' and rl <= L:
                rt = self._wrap(rt)
                ropen = False
            elif rl is not None:
                self.adjacent += 1
            return lt + [e[1]] + rt, ropen
        raise ValueError(k)


WORDY = set('abcdefghijklmnopqrstuvwxyzABCDEFGHIJKLMNOPQRSTUVWXYZ'
            "0123456789_'")


def join(tokens, choices):
    """Join tokens with generated whitespace / comments.

    `choices` is a callable k -> small int (drawn by the generator)."""
    out = []
    for i, t in enumerate(tokens):
        if i:
            prev = tokens[i - 1]
            c = choices(i)
            need = (prev[-1] in WORDY and t[0] in WORDY)
            # `\A`, `\E`, `\S` end in a letter
            if c == 0 and not need and not (
                    prev[-1] == '(' and t[0] == '*') and not (
                    prev == '\\' ):
                sep = ''
            elif c in (0, 1, 2, 3):
                sep = ' '
            elif c == 4:
                sep = '  '
            elif c == 5:
                sep = '\t'
            elif c == 6:
                sep = '\n'
            elif c == 7:
                sep = [' (* a comment /\\ ~ x *) ', ' (* note **) ',
                       ' (** doc **) ', ' (***) ', ' (* a * b ) *) '][
                           (i + len(t)) % 5]
            elif c == 8:
                sep = ' \\* trailing comment => y\n'
            else:
                sep = ' (* multi\nline *)\n '
            out.append(sep)
        out.append(t)
    return ''.join(out)


def flat_expected(operands, ops, n):
    """Value of `x0 op0 x1 op1 x2 ...` (no parentheses) under the
    documented precedence and left associativity: repeatedly reduce the
    leftmost operator among those of highest level."""
    vals = list(operands)
    ops = list(ops)
    while ops:
        best = max(SPELLING_LEVEL[o] for o in ops)
        i = next(k for k, o in enumerate(ops) if SPELLING_LEVEL[o] == best)
        fn = CONNECTIVE[LEVELS[best][0]]
        vals[i:i + 2] = [fn(vals[i], vals[i + 1], n)]
        del ops[i]
    return vals[0]


# ------------------------------------------------------------ strategies
def ast_strategy(names, nrefs, max_depth=5):
    """Trees of a drawn depth; binary operators dominate so that several
    operators end up adjacent without parentheses."""
    from hypothesis import strategies as st

    @st.composite
    def tree(draw, depth):
        if depth <= 0 or draw(st.integers(0, 9)) == 0:
            k = draw(st.integers(0, 7 if nrefs else 5))
            if k <= 3:
                return ('var', draw(st.sampled_from(names)))
            if k == 4:
                return ('const', True, draw(st.sampled_from(TRUE_SPELLINGS)))
            if k == 5:
                return ('const', False,
                        draw(st.sampled_from(FALSE_SPELLINGS)))
            return ('ref', draw(st.integers(0, nrefs - 1)),
                    draw(st.integers(0, 1)))
        k = draw(st.integers(0, 15))
        if k <= 8:
            return ('bin', draw(st.sampled_from(ALL_BINARY_SPELLINGS)),
                    draw(tree(depth - 1)), draw(tree(depth - 1)))
        if k <= 10:
            return ('not', draw(st.sampled_from(NOT_SPELLINGS)),
                    draw(tree(depth - 1)))
        if k == 11:
            return ('ite', draw(tree(depth - 2)), draw(tree(depth - 2)),
                    draw(tree(depth - 2)))
        if k == 12:
            return ('quant', draw(st.sampled_from(['A', 'E'])),
                    draw(st.lists(st.sampled_from(names), min_size=1,
                                  max_size=3, unique=True)),
                    draw(tree(depth - 1)))
        if k == 13:
            nm = st.sampled_from(names)
            return ('subst',
                    draw(st.lists(st.tuples(nm, nm), min_size=1, max_size=3,
                                  unique_by=lambda p: p[1])),
                    draw(tree(depth - 1)))
        if k == 14:
            return ('paren', draw(tree(depth - 1)))
        return ('quant', draw(st.sampled_from(['A', 'E'])),
                [draw(st.sampled_from(names))], draw(tree(depth - 1)))
    return st.integers(1, max_depth).flatmap(tree)
