"""Verification harness for tulip-control/dd (property-based testing / fuzzing)."""
