"""Independent manager invariants (never calls `assert_consistent`).

Reads `_succ/_pred/_ref/vars/_level_to_var/_ite_table/_min_free` only.
"""
from . import tt
from .denote import Den
from .viol import Violation, require


def check_order(bdd):
    vars_ = bdd.vars
    n = len(vars_)
    levels = sorted(vars_.values())
    require(levels == list(range(n)), 'order.not_bijection',
            dict(vars=dict(vars_)))
    l2v = bdd._level_to_var
    require(len(l2v) == n, 'order.level_to_var_size',
            dict(vars=dict(vars_), l2v=dict(l2v)))
    for v, l in vars_.items():
        require(l2v.get(l) == v, 'order.views_disagree',
                dict(vars=dict(vars_), l2v=dict(l2v)))
        require(bdd.var_at_level(l) == v, 'order.var_at_level')
        require(bdd.level_of_var(v) == l, 'order.level_of_var')
    require(dict(bdd.var_levels) == dict(vars_), 'order.var_levels')
    t = bdd._succ.get(1)
    require(t == (n, None, None), 'order.terminal', dict(t=t, n=n))


def check_structure(bdd):
    """Reduced, ordered, unique; `_pred` inverse of `_succ`."""
    succ = bdd._succ
    pred = bdd._pred
    n = len(bdd.vars)
    require(len(pred) == len(succ), 'unique.pred_size',
            dict(pred=len(pred), succ=len(succ)))
    seen = {}
    for u, t in succ.items():
        require(isinstance(u, int) and u >= 1, 'node.bad_id', u)
        require(pred.get(t) == u, 'unique.pred_not_inverse',
                dict(u=u, t=t, p=pred.get(t)))
        require(t not in seen, 'unique.duplicate_triple',
                dict(t=t, u=u, other=seen.get(t)))
        seen[t] = u
        i, v, w = t
        if u == 1:
            continue
        require(v is not None and w is not None, 'node.none_child', t)
        require(0 <= i < n, 'ordered.level_range', dict(u=u, t=t, n=n))
        require(abs(v) in succ and abs(w) in succ, 'node.dangling_child',
                dict(u=u, t=t))
        require(w > 0, 'reduced.high_complemented', dict(u=u, t=t))
        require(v != w, 'reduced.identical_children', dict(u=u, t=t))
        require(succ[abs(v)][0] > i and succ[abs(w)][0] > i,
                'ordered.level_not_increasing', dict(u=u, t=t))
    # least free integer
    mf = bdd._min_free
    k = 2
    while k in succ:
        k += 1
    require(mf == k, 'alloc.min_free_not_least', dict(min_free=mf, least=k))


def indegree(bdd):
    deg = dict.fromkeys(bdd._succ, 0)
    for u, (i, v, w) in bdd._succ.items():
        if u == 1:
            continue
        deg[abs(v)] += 1
        deg[abs(w)] += 1
    return deg


def check_counts(bdd, ledger, terminal_extra=1):
    """`_ref[u] == indegree(u) + ledger[u]` (+1 on the terminal)."""
    ref = bdd._ref
    succ = bdd._succ
    require(set(ref) == set(succ), 'counts.keys_differ',
            dict(only_ref=sorted(set(ref) - set(succ)),
                 only_succ=sorted(set(succ) - set(ref))))
    deg = indegree(bdd)
    for u in succ:
        want = deg[u] + ledger.get(u, 0)
        if u == 1:
            want += terminal_extra
        require(ref[u] == want, 'counts.mismatch',
                dict(u=u, ref=ref[u], indegree=deg[u],
                     ledger=ledger.get(u, 0)))
    for u in ledger:
        if ledger[u] > 0:
            require(u in succ, 'counts.held_node_deleted', dict(u=u))


def check_cache(bdd, den):
    """Every computed-table entry mentions live nodes and is right."""
    n = den.n
    for key, r in bdd._ite_table.items():
        # `(predicate, then, else) |-> edge`, all four of them edges
        require(isinstance(key, tuple) and len(key) == 3 and
                all(isinstance(x, int) for x in key + (r,)),
                'cache.malformed_entry', dict(key=repr(key)[:80]))
        g, u, v = key
        for x in (g, u, v, r):
            require(abs(x) in bdd._succ, 'cache.dead_node',
                    dict(entry=(g, u, v, r), node=x))
        want = tt.ite(den(g), den(u), den(v), n)
        require(den(r) == want, 'cache.wrong_entry',
                dict(entry=(g, u, v, r)))


def check_semantic(bdd, den):
    """Pairwise distinct and non-complementary tables; every stored
    node is true under the all-ones assignment (regular references are
    exactly the functions true at all-ones)."""
    n = den.n
    F = tt.full(n)
    top = 1 << ((1 << n) - 1)
    seen = {}
    for u in bdd._succ:
        t = den(u)
        require(t & top, 'semantic.node_false_at_all_ones',
                dict(u=u, t=t))
        require(t not in seen, 'semantic.two_nodes_same_function',
                dict(u=u, other=seen.get(t), t=t))
        seen[t] = u
    for t, u in seen.items():
        c = ~t & F
        require(c not in seen, 'semantic.node_and_complement',
                dict(u=u, other=seen.get(c)))


def check_manager(bdd, ledger=None, names=None, cache=True,
                  semantic=True, terminal_extra=1):
    check_order(bdd)
    check_structure(bdd)
    if ledger is not None:
        check_counts(bdd, ledger, terminal_extra)
    if names is not None and (cache or semantic):
        den = Den(bdd, names)
        if cache:
            check_cache(bdd, den)
        if semantic and len(names) <= 6:
            check_semantic(bdd, den)
