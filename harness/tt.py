"""Truth-table oracle.

A Boolean function of `n` variables (indices 0..n-1) is an `int` of
2**n bits; bit `i` is the value under the assignment in which variable
`j` has value `(i >> j) & 1`.  Variables are identified by *index into a
fixed tuple of names*, never by level, so tables do not depend on the
variable order of any manager.  This module shares no code with `dd`.
"""
import functools


@functools.lru_cache(maxsize=None)
def full(n):
    return (1 << (1 << n)) - 1


@functools.lru_cache(maxsize=None)
def var(n, j):
    if not 0 <= j < n:
        raise ValueError((n, j))
    t = 0
    for i in range(1 << n):
        if (i >> j) & 1:
            t |= 1 << i
    return t


def neg(t, n):
    return ~t & full(n)


def ite(g, u, v, n):
    return ((g & u) | (~g & v)) & full(n)


def cof(t, n, j, val):
    m = var(n, j)
    s = 1 << j
    if val:
        hi = t & m
        return hi | (hi >> s)
    lo = t & ~m & full(n)
    return lo | (lo << s)


def depends(t, n, j):
    return cof(t, n, j, 0) != cof(t, n, j, 1)


def support(t, n):
    return frozenset(j for j in range(n) if depends(t, n, j))


def exists(t, n, js):
    for j in js:
        t = cof(t, n, j, 0) | cof(t, n, j, 1)
    return t


def forall(t, n, js):
    for j in js:
        t = cof(t, n, j, 0) & cof(t, n, j, 1)
    return t


def cofactor(t, n, values):
    """values: dict index -> 0/1."""
    for j, b in values.items():
        t = cof(t, n, j, 1 if b else 0)
    return t


def compose(t, n, subst):
    """Simultaneous substitution: subst maps index -> table."""
    if not subst:
        return t
    r = 0
    items = list(subst.items())
    keep = 0
    for j in range(n):
        if j not in subst:
            keep |= 1 << j
    for i in range(1 << n):
        k = i & keep
        for j, g in items:
            if (g >> i) & 1:
                k |= 1 << j
        if (t >> k) & 1:
            r |= 1 << i
    return r


def rename(t, n, mapping):
    """Simultaneous renaming: mapping index -> index."""
    return compose(t, n, {j: var(n, k) for j, k in mapping.items()})


def widen(t, n, m):
    """Table of the same function over m >= n variables (the first n
    indices keep their meaning)."""
    if m == n:
        return t
    r = 0
    mask = (1 << n) - 1
    for i in range(1 << m):
        if (t >> (i & mask)) & 1:
            r |= 1 << i
    return r


def popcount(t):
    return bin(t).count('1')


def value(t, assignment_index):
    return (t >> assignment_index) & 1


def models(t, n):
    return [i for i in range(1 << n) if (t >> i) & 1]


# connectives, written from doc.md / dd/_abc.py comments
def c_and(a, b, n): return a & b
def c_or(a, b, n): return a | b
def c_xor(a, b, n): return a ^ b
def c_implies(a, b, n): return (~a | b) & full(n)
def c_equiv(a, b, n): return ~(a ^ b) & full(n)
def c_diff(a, b, n): return a & ~b & full(n)


BINARY = {
    'and': c_and, '/\\': c_and, '&': c_and, '&&': c_and,
    'or': c_or, '\\/': c_or, '|': c_or, '||': c_or,
    '#': c_xor, 'xor': c_xor, '^': c_xor,
    '=>': c_implies, '->': c_implies, 'implies': c_implies,
    '<=>': c_equiv, '<->': c_equiv, 'equiv': c_equiv,
    'diff': c_diff, '-': c_diff,
}
UNARY = ('not', '~', '!')
QUANT = {'\\A': True, 'forall': True, '\\E': False, 'exists': False}


def selftest():
    """Cross-check the bit tricks against brute-force evaluation."""
    n = 3
    F = full(n)
    for t in range(0, 256, 7):
        for j in range(n):
            for b in (0, 1):
                c = cof(t, n, j, b)
                for i in range(8):
                    k = (i & ~(1 << j)) | (b << j)
                    if ((c >> i) & 1) != ((t >> k) & 1):
                        raise AssertionError('cof')
        g = (t * 37 + 11) & F
        r = compose(t, n, {1: g})
        for i in range(8):
            k = (i & ~2) | (((g >> i) & 1) << 1)
            if ((r >> i) & 1) != ((t >> k) & 1):
                raise AssertionError('compose')
        r = rename(t, n, {0: 1, 1: 0})
        for i in range(8):
            k = (i & 4) | ((i & 1) << 1) | ((i >> 1) & 1)
            if ((r >> i) & 1) != ((t >> k) & 1):
                raise AssertionError('rename')
        e = exists(t, n, [2])
        for i in range(8):
            want = ((t >> (i & 3)) & 1) | ((t >> ((i & 3) | 4)) & 1)
            if ((e >> i) & 1) != want:
                raise AssertionError('exists')
