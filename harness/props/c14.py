"""C14 — declaring and undeclaring variables keeps a valid order and all
functions."""
from .. import histprop as H
from ..viol import Violation, require

ID = 'C14'
LEVEL = 'exploration'
RULE = (
    'Wide: 300 variables (idempotent re-declaration with separately created equal ints, conflicts, copy_vars, swaps at the bottom, undeclare/declare, pickle into a manager that has the variables), functions evaluated by walking succ. '
    'H: Hypothesis histories over <=6 names: declare (new and existing '
    'mixed), add_var(name[, level]) with level in {own level, next bottom '
    'level, a level used by another variable, a wrong level for an existing '
    'name}, constructions, incref/decref, collections, swaps, '
    'undeclare_vars() and undeclare_vars(*subset) for arbitrary subsets '
    'incl. used and unknown names; E: every sequence of length <= depth '
    'over a 12-letter fixed alphabet (depth 4 quick / 5 thorough). Model: '
    'list of names; unused = no stored node at that level (garbage counts '
    'as use). Oracle: return values / ValueError exactly as the model '
    'predicts; vars, var_levels, var_at_level, level_of_var describe one '
    'bijection onto 0..n-1; new names get level n; compaction keeps '
    'relative order; held references keep their truth tables; independent '
    'manager invariants. Non-trivial: a variable was removed while another '
    'variable with stored nodes stayed; distinct = the op list.')
ASSUMPTIONS = [
    'explicit levels that would leave a gap (level > n) are not generated: '
    'find_or_add documents contiguous levels as a requirement',
]

ALPHA = {
    'declare': 6, 'add_var': 8, 'undeclare': 10, 'undeclare_unknown': 1,
    'build': 6, 'var': 2, 'apply': 3, 'drop': 4, 'gc': 5, 'swap': 3,
    'incref': 1, 'decref': 1, 'reorder_to': 1, 'sift': 1, 'cube': 1,
    'quantify': 1,
}

LETTERS = [
    ['declare', 3], ['add_var', 3, 1], ['add_var', 0, 2],
    ['build', 0b01100110, 0, 1], ['var', 2, 1], ['var', 1, 1], ['drop', 0],
    ['gc', 0], ['swap', 0, 0], ['undeclare', 0], ['undeclare', 0b10],
    ['undeclare', 0b101],
]


def nontrivial(w):
    return w.labels.get('undeclare.removed', 0) > 0 and len(w.b) > 1


def plan(tier, seed):
    cfgs = [dict(kind='bdd', nmax=6, init_vars=3, semantic=False),
            dict(kind='bdd', nmax=5, init_vars=0),
            dict(kind='bdd', nmax=4, init_vars=4),
            dict(kind='autoref', nmax=5, init_vars=2),
            # many variables, few used levels (level maps with holes)
            dict(kind='bdd', nmax=10, init_vars=9, semantic=False),
            dict(kind='bdd', nmax=12, init_vars=10, semantic=False),
            dict(kind='bdd', nmax=15, init_vars=13, semantic=False),
            # managers constructed from a levels dict listed in another
            # order, or by copy_vars from a reordered manager
            dict(kind='bdd', nmax=5, order=['c', 'a', 'd', 'b'],
                 ctor='levels', ctor_seed=1),
            dict(kind='autoref', nmax=5, order=['b', 'd', 'a', 'c'],
                 ctor='levels', ctor_seed=2),
            dict(kind='bdd', nmax=5, order=['d', 'b', 'a', 'c'],
                 ctor='copy_vars'),
            dict(kind='autoref', nmax=5, order=['c', 'd', 'b', 'a'],
                 ctor='copy_vars')]
    specs = []
    for s in range(16 if tier == 'thorough' else 10):
        specs.append(dict(kind='random', seed=seed * 1000 + s, cfgs=cfgs,
                          examples=1500 if tier == 'thorough' else 400,
                          min_len=6, max_len=40))
    for api in ('bdd', 'autoref'):
        specs.append(dict(kind='wide', n=300, seed=seed, api=api))
    specs += H.exhaustive_plan(dict(kind='bdd', nmax=4, init_vars=3),
                               LETTERS, 5 if tier == 'thorough' else 4, seed)
    return specs


def _eval(b, u, assignment):
    """Value of reference u under a total assignment, by walking succ."""
    neg = u < 0
    u = abs(u)
    guard = 0
    while u != 1:
        i, v, w = b.succ(u)
        nxt = w if assignment[b.var_at_level(i)] else v
        if nxt < 0:
            neg = not neg
        u = abs(nxt)
        guard += 1
        require(guard < 10 ** 4, 'wide.cycle')
    return not neg


def run_wide(spec, out):
    """Hundreds of variables: levels far beyond the small integers (the
    declaration calls compare and index levels)."""
    import random
    import itertools
    import os
    import dd.autoref as _ar
    import dd._copy as _copy
    from .. import fix, inv
    r = random.Random(f'c14wide:{spec["seed"]}')
    N = spec['n']
    case = dict(kind='wide', n=N, seed=spec['seed'], api=spec['api'])
    names = [f'v{k}' for k in range(N)]

    def bijection(m, want):
        vs = dict(m.vars)
        require(vs == {x: l for l, x in enumerate(want)} and
                dict(m.var_levels) == vs, 'wide.vars', dict(n=len(vs)))
        for l in (0, 1, len(want) // 2, len(want) - 2, len(want) - 1):
            require(m.var_at_level(l) == want[l] and
                    m.level_of_var(want[l]) == l, 'wide.level_maps',
                    dict(level=l))

    def body():
        ar = spec['api'] == 'autoref'
        A = _ar.BDD() if ar else fix.new_bdd([])
        b = A._bdd if ar else A
        if ar:
            b.__class__ = type(fix.new_bdd([]))
        A.declare(*names)
        bijection(A, names)
        inv.check_order(b)
        ks = [0, 1, 255, 256, 257, 258, N - 1] + r.sample(range(N), 12)
        for k in ks:
            # an equal level given as a separately created int
            lvl = int(str(k))
            require(A.add_var(names[k], lvl) == k, 'wide.add_var_level')
            require(A.add_var(names[k]) == k, 'wide.add_var')
            A.declare(names[k], names[(k * 7) % N])
            if k + 1 < N:
                try:
                    A.add_var(names[k], int(str(k + 1)))
                except ValueError:
                    pass
                else:
                    raise Violation('wide.conflict_accepted', dict(k=k))
        bijection(A, names)
        # copy_vars between managers that declare the same names
        T = _ar.BDD() if ar else fix.new_bdd([])
        if ar:
            T._bdd.__class__ = type(fix.new_bdd([]))
        T.declare(*names[:N // 2])
        if ar:
            _ar.copy_vars(A, T)
        else:
            _copy.copy_vars(A, T)
        bijection(T, names)
        _copy.copy_vars(A, T)
        bijection(T, names)
        # functions over high levels, swaps up there, removal of unused
        # variables below and above
        xs = [names[5], names[N - 10], names[N - 2], names[N - 1]]
        s_ = (f'({xs[0]} /\\ ~ {xs[1]}) \\/ ({xs[2]} # {xs[3]}) \\/ '
              f'(~ {xs[0]} /\\ {xs[3]})')
        f = A.add_expr(s_)
        if not ar:
            b.incref(f)
        u = f.node if ar else f

        def same(what):
            for vals in itertools.product((False, True), repeat=4):
                a = dict.fromkeys(b.vars, False)
                a.update(zip(xs, vals))
                x0, x1, x2, x3 = vals
                want = (x0 and not x1) or (x2 != x3) or (not x0 and x3)
                require(_eval(b, u, a) == want, 'wide.function_changed',
                        dict(after=what))
            inv.check_order(b)
            inv.check_structure(b)
        same('build')
        b.swap(N - 2, N - 1)
        same('swap at the bottom')
        b.swap(N - 2, N - 1)
        if not ar:
            gone = [names[100], names[N - 5], names[260]]
            removed = b.undeclare_vars(*gone)
            require(set(removed) == set(gone), 'wide.undeclare')
            rest = [x for x in names if x not in gone]
            bijection(b, rest)
            same('undeclare')
            b.declare(*gone)
            bijection(b, rest + gone)
            same('declare again')
        # pickle into a manager that already declares the variables
        fname = os.path.join(os.getcwd(), 'Wide.p')
        order_now = sorted(b.vars, key=b.vars.get)
        C = _ar.BDD() if ar else fix.new_bdd([])
        cb = C._bdd if ar else C
        if ar:
            cb.__class__ = type(fix.new_bdd([]))
        C.declare(*order_now)
        A.dump(fname, roots=[f])
        try:
            back = C.load(fname)
        finally:
            os.remove(fname)
        g = back[0]
        gu = g.node if ar else g
        for vals in itertools.product((False, True), repeat=4):
            a = dict.fromkeys(cb.vars, False)
            a.update(zip(xs, vals))
            x0, x1, x2, x3 = vals
            want = (x0 and not x1) or (x2 != x3) or (not x0 and x3)
            require(_eval(cb, gu, a) == want, 'wide.loaded_function')
        bijection(C, order_now)
    out.guard(case, body)
    out.count(1, 1)
    out.sample(case)


def run(spec, out):
    if spec['kind'] == 'wide':
        return run_wide(spec, out)
    if spec['kind'] == 'random':
        H.run_random(spec, out, ALPHA, nontrivial)
    else:
        H.run_exhaustive(spec, out, nontrivial)


def replay_into(case, out):
    if case.get('kind') == 'wide':
        return run_wide(case, out)
    return H.replay_into(case, out)
