"""C14 — declaring and undeclaring variables keeps a valid order and all
functions."""
from .. import histprop as H

ID = 'C14'
LEVEL = 'exploration'
RULE = (
    'H: Hypothesis histories over <=6 names: declare (new and existing '
    'mixed), add_var(name[, level]) with level in {own level, next bottom '
    'level, a level used by another variable, a wrong level for an existing '
    'name}, constructions, incref/decref, collections, swaps, '
    'undeclare_vars() and undeclare_vars(*subset) for arbitrary subsets '
    'incl. used and unknown names; E: every sequence of length <= depth '
    'over a 12-letter fixed alphabet (depth 4 quick / 5 thorough). Model: '
    'list of names; unused = no stored node at that level (garbage counts '
    'as use). Oracle: return values / ValueError exactly as the model '
    'predicts; vars, var_levels, var_at_level, level_of_var describe one '
    'bijection onto 0..n-1; new names get level n; compaction keeps '
    'relative order; held references keep their truth tables; independent '
    'manager invariants. Non-trivial: a variable was removed while another '
    'variable with stored nodes stayed; distinct = the op list.')
ASSUMPTIONS = [
    'explicit levels that would leave a gap (level > n) are not generated: '
    'find_or_add documents contiguous levels as a requirement',
]

ALPHA = {
    'declare': 6, 'add_var': 8, 'undeclare': 10, 'undeclare_unknown': 1,
    'build': 6, 'var': 2, 'apply': 3, 'drop': 4, 'gc': 5, 'swap': 3,
    'incref': 1, 'decref': 1, 'reorder_to': 1, 'sift': 1, 'cube': 1,
    'quantify': 1,
}

LETTERS = [
    ['declare', 3], ['add_var', 3, 1], ['add_var', 0, 2],
    ['build', 0b01100110, 0, 1], ['var', 2, 1], ['var', 1, 1], ['drop', 0],
    ['gc', 0], ['swap', 0, 0], ['undeclare', 0], ['undeclare', 0b10],
    ['undeclare', 0b101],
]


def nontrivial(w):
    return w.labels.get('undeclare.removed', 0) > 0 and len(w.b) > 1


def plan(tier, seed):
    cfgs = [dict(kind='bdd', nmax=6, init_vars=3, semantic=False),
            dict(kind='bdd', nmax=5, init_vars=0),
            dict(kind='bdd', nmax=4, init_vars=4),
            dict(kind='autoref', nmax=5, init_vars=2),
            # many variables, few used levels (level maps with holes)
            dict(kind='bdd', nmax=10, init_vars=9, semantic=False),
            dict(kind='bdd', nmax=12, init_vars=10, semantic=False),
            dict(kind='bdd', nmax=15, init_vars=13, semantic=False),
            # managers constructed from a levels dict listed in another
            # order, or by copy_vars from a reordered manager
            dict(kind='bdd', nmax=5, order=['c', 'a', 'd', 'b'],
                 ctor='levels', ctor_seed=1),
            dict(kind='autoref', nmax=5, order=['b', 'd', 'a', 'c'],
                 ctor='levels', ctor_seed=2),
            dict(kind='bdd', nmax=5, order=['d', 'b', 'a', 'c'],
                 ctor='copy_vars'),
            dict(kind='autoref', nmax=5, order=['c', 'd', 'b', 'a'],
                 ctor='copy_vars')]
    specs = []
    for s in range(16 if tier == 'thorough' else 10):
        specs.append(dict(kind='random', seed=seed * 1000 + s, cfgs=cfgs,
                          examples=1500 if tier == 'thorough' else 400,
                          min_len=6, max_len=40))
    specs += H.exhaustive_plan(dict(kind='bdd', nmax=4, init_vars=3),
                               LETTERS, 5 if tier == 'thorough' else 4, seed)
    return specs


def run(spec, out):
    if spec['kind'] == 'random':
        H.run_random(spec, out, ALPHA, nontrivial)
    else:
        H.run_exhaustive(spec, out, nontrivial)


replay_into = H.replay_into
