"""C08 — dd.autoref keeps live Functions valid and releases exactly what
is dropped."""
from .. import histprop as H

ID = 'C08'
LEVEL = 'exploration'
RULE = (
    'One shard per tier under python -O; manual incref/decref through other handles; second manager. '
    'S: every position of the dynamic-reordering trigger for the entry points that create handles from other managers, files and recursions with integer intermediates (as in C09). '
    'Histories also contain a few rejected calls from the catalogue of C17 (failing loads, undeclared names, ...). '
    'H: Hypothesis histories on dd.autoref; the harness registry holds the '
    'only strong references to Function objects. Operations: constructions '
    '(var, add_expr, cube, constants, find_or_add, node-by-node), Function '
    'operators and BDD methods, traversals low/high/succ (which create '
    'handles), handle copies (Function(int(u), bdd), _add_int), drop i '
    '(CPython runs __del__ at once), collect_garbage, sifting, '
    'reorder(order), reorder_to_pairs, with dynamic reordering off and on '
    '(configure(reordering=True) with REORDER_STARTS lowered to 2/4/8 and '
    'at the default). After every step: every live handle denotes its '
    'recorded table; _ref == in-degree + number of live handles on the '
    'node; independent manager invariants. Teardown: drop all handles in a '
    'generated order, gc.collect(), collection leaves only the terminal, '
    'the manager shutdown check (BDD.__del__) passes. Non-trivial: some '
    'handle was the last owner of a node when dropped and a later '
    'collection or reordering ran; distinct = the op list.')
ASSUMPTIONS = [
    'CPython reference counting runs Function.__del__ when the registry '
    'entry is cleared',
    'harness set-up that uses the raw find_or_add primitive runs with '
    'dynamic reordering switched off via configure()',
]

ALPHA = {
    'build': 8, 'repeat': 5, 'file_roundtrip': 2, 'churn': 3, 'compare_all': 4, 'var': 2, 'cube': 2, 'funcop': 8, 'apply': 3, 'not': 1,
    'ite': 2, 'quantify': 2, 'let_const': 1, 'let_rename': 1,
    'let_compose': 2, 'add_expr': 2, 'to_expr': 1, 'queries': 1,
    'traverse': 4, 'copy_handle': 3, 'drop': 10, 'gc': 5, 'sift': 3,
    'reorder_to': 3, 'reorder_pairs': 1, 'declare': 1, 'find_or_add': 1,
    'configure': 1, 'xcopy': 2, 'peer': 1, 'views': 1,
    # a few rejected calls (e.g. a load that fails half-way): afterwards
    # every count must still be in-edges + live handles
    'bad': (3, [54, 65535, 65535]),
}
# find_or_add / configure-toggle are left out when reordering is on
# (find_or_add: see KNOWN_FINDINGS C09 undecorated entry points)
ALPHA_RE = {k: v for k, v in ALPHA.items()
            if k not in ('find_or_add', 'configure')}
ALPHA_OFF = {k: v for k, v in ALPHA.items() if k != 'configure'}


def nontrivial(w):
    return (w.labels.get('drop.last_owner', 0) > 0 and
            (w.labels.get('gc.freed', 0) > 0 or
             bool(w.nontrivial & {'sift', 'reorder_to', 'pairs',
                                  'dynreorder'})))


def plan(tier, seed):
    off = [dict(kind='autoref', nmax=5, init_vars=3),
           dict(kind='autoref', nmax=4, init_vars=4),
           dict(kind='autoref', nmax=3, init_vars=2)]
    on = [dict(kind='autoref', nmax=5, init_vars=4, reordering=True,
               reorder_starts=s) for s in (2, 4, 8)] + \
         [dict(kind='autoref', nmax=6, init_vars=6, reordering=True,
               semantic=False)]
    specs = []
    # trigger-position sweeps of dynamic reordering (machinery of C09)
    for s_ in range(6 if tier == 'thorough' else 2):
        specs.append(dict(kind='schedule', seed=seed * 100 + 60 + s_,
                          only=['copy', 'ar_copy_bdd', '_copy_copy_bdd', 'load_pickle', 'load_json', 'image', 'preimage', 'find_or_add', 'cube', 'funcop'],
                          examples=200 if tier == 'thorough' else 40))
    k = 16 if tier == 'thorough' else 12
    for s in range(k):
        re = (s % 2 == 1)
        specs.append(dict(kind='random', seed=seed * 1000 + s,
                          cfgs=on if re else off, reordering=re,
                          examples=1500 if tier == 'thorough' else 220,
                          min_len=8, max_len=45))
    # the interpreter run with -O (assert statements stripped)
    for s in range(4 if tier == 'thorough' else 1):
        specs.append(dict(kind='random', seed=seed * 1000 + 90 + s,
                          cfgs=off + on[:2], reordering=False,
                          examples=800 if tier == 'thorough' else 150,
                          min_len=8, max_len=40, pyopt=True,
                          exclude=['bad', 'full', 'decref_zero']))
    # every rejected call of the C17 catalogue after fixed prefixes,
    # followed by the teardown (drop all handles, shutdown check)
    for pi in range(3):
        specs.append(dict(kind='catalogue', prefix=pi, api='autoref',
                          positions=16 if tier == 'thorough' else 8,
                          shutdown=True, seed=seed))
    return specs


def run(spec, out):
    if spec['kind'] == 'schedule':
        from . import c09
        return c09.run_schedule(spec, out)
    if spec['kind'] == 'catalogue':
        from . import c17
        return c17.run_catalogue(spec, out)
    H.run_random(spec, out, ALPHA_RE if spec['reordering'] else ALPHA_OFF,
                 nontrivial, shutdown=True)


def replay_into(case, out):
    if case.get('kind') == 'schedule':
        from . import c09
        return c09.replay_into(case, out)
    return H.replay_into(case, out)
