"""C04 — `let` performs exact simultaneous substitution."""
import itertools
import random

from .. import histprop as H
from .. import tt, fix
from ..denote import Den, Builder
from ..viol import Violation, require

ID = 'C04'
LEVEL = 'exploration'
RULE = (
    'Sandwich: a sweep of the three forms of let over a manager with an unused variable, one perturbation (undeclare / declare / swap / collect / reorder / sift), the same sweep again. '
    'S: every position of the dynamic-reordering trigger inside let in its three forms (as in C09). '
    'H: Hypothesis histories on used managers (several lets in one manager without a collection in between, collections, re-used node numbers, swaps, dynamic reordering) mixing the three forms of let. '
    'E (n<=3, all orders, fresh and used managers): cofactor - every '
    'function x every partial assignment (3^n); rename - every function x '
    'every total or partial map names->names ((n+1)^n: injective or not, '
    'identity entries, swaps, keys outside the support); compose of one '
    'variable - every (f, x, g) (196 608 for n=3); forms bdd.let, '
    'bdd.cofactor/compose/rename, dd.autoref BDD.let with Function values, '
    'Function.let(**d). R: Hypothesis n=3..6 multi-variable composition '
    '(replacements that mention replaced variables, constants as '
    'references, 2..n entries), renamings and assignments on sampled '
    'tables. Oracle: simultaneous substitution on truth tables; u and all '
    'replacement references unchanged afterwards. W: managers with 300 variables (support of 2..6 variables spread over the order or clustered at either end; the three forms of let through dd.bdd and dd.autoref), results evaluated by walking low/high on every assignment of the support. Non-trivial: some key in '
    'support(u) and result != u; distinct = (form, order, variant, u, d).')
ASSUMPTIONS = [
    'let dictionaries are homogeneous (documented); Boolean values are '
    'bool, references are int / Function',
]


HIST_ALPHA = {'build': 8, 'repeat': 6, 'churn': 1, 'apply': 2, 'let_const': 8, 'let_rename': 8, 'let_compose': 10, 'drop': 6, 'gc': 5, 'swap': 3, 'sift': 1, 'reorder_to': 1, 'declare': 1, 'var': 1, 'undeclare': 3, 'add_var': 1, 'quantify': 1, 'gc_roots': 1}


def _hist_nontrivial(w):
    return w.labels.get('gc.number_reused', 0) > 0 or bool(w.nontrivial & {'swap', 'sift', 'reorder_to', 'dynreorder'})


def _hist_plan(tier, seed):
    cfgs = [dict(kind='bdd', nmax=4, init_vars=3), dict(kind='autoref', nmax=5, init_vars=4), dict(kind='autoref', nmax=5, init_vars=4, reordering=True, reorder_starts=4), dict(kind='bdd', nmax=10, init_vars=9, semantic=False), dict(kind='bdd', nmax=12, init_vars=11, semantic=False), dict(kind='autoref', nmax=10, init_vars=10, semantic=False)]
    return [dict(kind='history', seed=seed * 1000 + 500 + s, cfgs=cfgs,
                 examples=1200 if tier == 'thorough' else 300,
                 min_len=10, max_len=45)
            for s in range(8 if tier == 'thorough' else 4)]


def _sandwich_calls(b, refs, nm, den):
    n = 3
    N = 5
    for t in range(0, 256, 2):
        for vals in itertools.product((None, False, True), repeat=n):
            d = {nm[j]: v for j, v in enumerate(vals) if v is not None}
            if not d:
                continue

            def call(t=t, d=d):
                r = b.let(dict(d), refs[t])
                want = tt.widen(tt.cofactor(
                    t, n, {nm.index(x): v for x, v in d.items()}), n, N)
                require(den(r) == want, 'cofactor.wrong_after_perturbation',
                        dict(got=den(r), want=want))
            yield dict(op='cofactor', t=t, d=d), call
        for tgt in ((1, 0, None), (None, 2, 1), (2, None, 0), (1, 2, 0),
                    (0, 0, None)):
            d = {nm[j]: nm[k] for j, k in enumerate(tgt) if k is not None}

            def call(t=t, d=d):
                r = b.let(dict(d), refs[t])
                want = tt.widen(tt.rename(
                    t, n, {nm.index(x): nm.index(y) for x, y in d.items()}),
                    n, N)
                require(den(r) == want, 'rename.wrong_after_perturbation',
                        dict(got=den(r), want=want))
            yield dict(op='rename', t=t, d=d), call
        for j in range(n):
            for tg in (0x96, 0xe8, (t * 5 + 1) & 255):
                def call(t=t, j=j, tg=tg):
                    r = b.let({nm[j]: refs[tg]}, refs[t])
                    want = tt.widen(tt.compose(t, n, {j: tg}), n, N)
                    require(den(r) == want,
                            'compose.wrong_after_perturbation',
                            dict(got=den(r), want=want))
                yield dict(op='compose', t=t, x=nm[j], g=tg), call


def plan(tier, seed):
    specs = []
    # trigger-position sweeps of dynamic reordering (machinery of C09)
    for s_ in range(6 if tier == 'thorough' else 2):
        specs.append(dict(kind='schedule', seed=seed * 100 + 60 + s_,
                          only=['let_const', 'let_compose', 'let_rename'],
                          examples=200 if tier == 'thorough' else 30))
    specs += _hist_plan(tier, seed)
    specs += fix.sandwich_specs(tier, seed)
    for n in (1, 2, 3):
        for order in fix.orders(n):
            for variant in ('fresh', 'used'):
                if tier == 'quick' and n == 3 and variant == 'used' and \
                        (fix.orders(3).index(order) + seed) % 2:
                    continue
                specs.append(dict(kind='small', n=n, order=order,
                                  variant=variant, seed=seed))
    for order in fix.orders(3):
        specs.append(dict(kind='compose1', order=order, seed=seed,
                          variant='fresh'))
    for api in ('bdd', 'autoref'):
        for s in range(4 if tier == 'thorough' else 1):
            specs.append(dict(kind='wide', n=300, api=api,
                              seed=seed * 100 + 80 + s,
                              examples=60 if tier == 'thorough' else 12))
    for s in range(12 if tier == 'thorough' else 4):
        specs.append(dict(kind='random', seed=seed * 100 + s,
                          examples=1500 if tier == 'thorough' else 300))
    return specs


def _manager(spec, nm):
    if spec['variant'] == 'used':
        b = fix.used_bdd(spec['order'], nm, spec['seed'])
    else:
        b = fix.new_bdd(spec['order'])
    return b, fix.build_all(b, nm)


def run_small(spec, out):
    import dd.autoref as _ar
    n = spec['n']
    nm = fix.names(n)
    F = tt.full(n)
    b, refs = _manager(spec, nm)
    den = Den(b, nm)
    A = _ar.BDD()
    A.declare(*spec['order'])
    abd = Builder(A._bdd, nm)
    funcs = [_ar.Function(abd(t), A) for t in range(F + 1)]
    aden = Den(A._bdd, nm)
    base = {k: spec[k] for k in ('kind', 'n', 'order', 'variant', 'seed')}
    # --- cofactor
    assigns = []
    for vals in itertools.product((None, False, True), repeat=n):
        d = {nm[j]: v for j, v in enumerate(vals) if v is not None}
        if d:
            assigns.append(d)
    def canon(r, which='bdd'):
        # canonical reference of the table that r denotes (C02): a result
        # that evaluates correctly but is another (e.g. mis-ordered) node
        # is a violation too
        if which == 'bdd':
            t_ = den(r)
            require(0 <= t_ <= F and r == refs[t_], 'result.not_canonical',
                    dict(r=r, want=refs[t_]))
            return t_
        t_ = aden(r)
        require(r == funcs[t_].node, 'result.not_canonical',
                dict(r=r, want=funcs[t_].node))
        return t_
    forms = {
        'let': lambda t, d: canon(b.let(dict(d), refs[t])),
        'cofactor': lambda t, d: canon(b.cofactor(refs[t], dict(d))),
        # keys given as levels (documented for the dd.bdd manager)
        'cofactor(levels)': lambda t, d: canon(b.cofactor(
            refs[t], {b.level_of_var(x): v for x, v in d.items()})),
        'let(levels)': lambda t, d: canon(b.let(
            {b.level_of_var(x): v for x, v in d.items()}, refs[t])),
        'autoref.let': lambda t, d: canon(
            A.let(dict(d), funcs[t]).node, 'ar'),
        'Function.let': lambda t, d: canon(funcs[t].let(**d).node, 'ar'),
    }
    for fname, fn in forms.items():
        nt = 0
        for t in range(F + 1):
            sup = tt.support(t, n)
            for d in assigns:
                want = tt.cofactor(
                    t, n, {nm.index(x): v for x, v in d.items()})
                case = dict(base, op='cofactor', form=fname, t=t, d=d)

                def body():
                    got = fn(t, d)
                    require(got == want, 'cofactor.wrong_result',
                            dict(got=got, want=want))
                out.guard(case, body)
                if want != t:
                    nt += 1
        out.count((F + 1) * len(assigns), nt)
    # --- rename
    maps = []
    for tgt in itertools.product([None] + list(range(n)), repeat=n):
        d = {nm[j]: nm[k] for j, k in enumerate(tgt) if k is not None}
        if d:
            maps.append(d)
    forms = {
        'let': lambda t, d: canon(b.let(dict(d), refs[t])),
        'rename': lambda t, d: canon(b.rename(refs[t], dict(d))),
        'autoref.let': lambda t, d: canon(
            A.let(dict(d), funcs[t]).node, 'ar'),
        'Function.let': lambda t, d: canon(funcs[t].let(**d).node, 'ar'),
    }
    for fname, fn in forms.items():
        nt = 0
        for t in range(F + 1):
            for d in maps:
                want = tt.rename(
                    t, n, {nm.index(x): nm.index(y) for x, y in d.items()})
                case = dict(base, op='rename', form=fname, t=t, d=d)

                def body():
                    got = fn(t, d)
                    require(got == want, 'rename.wrong_result',
                            dict(got=got, want=want))
                out.guard(case, body)
                if want != t:
                    nt += 1
        out.count((F + 1) * len(maps), nt)
        b.collect_garbage()
        den = Den(b, nm)
    # --- compose with constants given as references
    nt = 0
    for t in range(F + 1):
        for d in assigns:
            want = tt.cofactor(t, n, {nm.index(x): v for x, v in d.items()})
            dd_ = {x: (1 if v else -1) for x, v in d.items()}
            case = dict(base, op='compose-const', t=t, d=d)

            def body():
                got = canon(b.let(dd_, refs[t]))
                require(got == want, 'compose.wrong_result',
                        dict(got=got, want=want))
            out.guard(case, body)
            if want != t:
                nt += 1
    out.count((F + 1) * len(assigns), nt)
    # operands unchanged, diagram still reduced and ordered
    from .. import inv
    out.guard(dict(base, step='structure'),
              lambda: (inv.check_structure(b), inv.check_structure(A._bdd)))
    den = Den(b, nm)
    for t, u in enumerate(refs):
        if den(u) != t:
            out.fail('operand_changed', dict(base, t=t))
    aden = Den(A._bdd, nm)
    for t, f in enumerate(funcs):
        if aden(f.node) != t:
            out.fail('operand_changed', dict(base, t=t, autoref=True))
    out.sample(dict(base, op='rename', form='let', t=F // 3,
                    d={nm[0]: nm[-1]}))
    out.exhaustive = True
    for f in funcs:
        f.node = None


def run_compose1(spec, out):
    n = 3
    nm = fix.names(n)
    b, refs = _manager(spec, nm)
    den = Den(b, nm)
    base = {k: spec[k] for k in ('kind', 'order', 'variant', 'seed')}
    import dd.autoref as _ar
    for j, x in enumerate(nm):
        nt = 0
        for tf in range(256):
            dep = tt.depends(tf, n, j)
            for tg in range(256):
                want = tt.compose(tf, n, {j: tg})
                form = (tf + tg) % 2
                try:
                    if form:
                        r = b.compose(refs[tf], {x: refs[tg]})
                    else:
                        r = b.let({x: refs[tg]}, refs[tf])
                    if den(r) != want or r != refs[want]:
                        out.fail('compose.wrong_result',
                                 dict(base, kind='compose1case', x=x, f=tf,
                                      g=tg, form=form),
                                 dict(got=den(r), want=want, r=r,
                                      canonical=refs[want]))
                except Exception as e:
                    out.guard(dict(base, kind='compose1case', x=x, f=tf,
                                   g=tg, form=form), _reraise, e)
                if dep and want != tf:
                    nt += 1
            if tf % 32 == 31:
                b.collect_garbage()
        out.count(65536, nt)
    den = Den(b, nm)
    for t, u in enumerate(refs):
        if den(u) != t:
            out.fail('operand_changed', dict(base, t=t))
    out.sample(dict(base, x='b', f=0xca, g=0x66,
                    result=tt.compose(0xca, n, {1: 0x66})))
    out.exhaustive = True


def _reraise(e):
    raise e


def check_random_case(case):
    n = case['n']
    nm = fix.names(n)
    F = tt.full(n)
    if case['autoref']:
        import dd.autoref as _ar
        A = _ar.BDD()
        A.declare(*case['order'])
        b = A._bdd
    else:
        b = fix.new_bdd(case['order'])
    bd = Builder(b, nm)
    t = case['t']
    mode = case['mode']
    sub = case['sub']      # list of [var index, value]
    tabs = {}
    if mode == 'compose':
        tabs = {j: v & F for j, v in sub}
        want = tt.compose(t, n, tabs)
    elif mode == 'rename':
        want = tt.rename(t, n, {j: v % n for j, v in sub})
    else:
        want = tt.cofactor(t, n, {j: v % 2 for j, v in sub})
    if case['autoref']:
        F_ = _ar.Function
        u = F_(bd(t), A)
        if mode == 'compose':
            held = {j: F_(bd(g), A) for j, g in tabs.items()}
            d = {nm[j]: f for j, f in held.items()}
        elif mode == 'rename':
            d = {nm[j]: nm[v % n] for j, v in sub}
        else:
            d = {nm[j]: bool(v % 2) for j, v in sub}
        if case['pre']:
            A.collect_garbage()
            A.reorder()
        r = A.let(d, u)
        got = Den(b, nm)(r.node)
        require(got == want, f'{mode}.wrong_result', dict(got=got, want=want))
        from .. import inv
        inv.check_structure(b)
        with_rb = Builder(b, nm)(want)
        require(r.node == with_rb, 'result.not_canonical')
        require(Den(b, nm)(u.node) == t, 'operand_changed')
        if mode == 'compose':
            for j, f in held.items():
                require(Den(b, nm)(f.node) == tabs[j], 'operand_changed')
    else:
        u = bd(t)
        b.incref(u)
        if mode == 'compose':
            held = {j: bd(g) for j, g in tabs.items()}
            for g in held.values():
                b.incref(g)
            d = {nm[j]: g for j, g in held.items()}
        elif mode == 'rename':
            d = {nm[j]: nm[v % n] for j, v in sub}
        else:
            d = {nm[j]: bool(v % 2) for j, v in sub}
        if case['pre']:
            b.collect_garbage()
            if n >= 2:
                b.swap(0, 1)
        r = b.let(d, u)
        got = Den(b, nm)(r)
        require(got == want, f'{mode}.wrong_result', dict(got=got, want=want))
        from .. import inv
        inv.check_structure(b)
        require(r == Builder(b, nm)(want), 'result.not_canonical')
        require(Den(b, nm)(u) == t, 'operand_changed')
        if mode == 'compose':
            for j, g in held.items():
                require(Den(b, nm)(g) == tabs[j], 'operand_changed')
    keys = {j for j, _ in sub}
    return bool(keys & tt.support(t, n)) and want != t


def run_random(spec, out):
    import hypothesis
    from hypothesis import given, settings, strategies as st, HealthCheck

    @st.composite
    def cases(draw):
        n = draw(st.integers(3, 6))
        F = tt.full(n)
        order = draw(st.permutations(list(fix.names(n))))
        mode = draw(st.sampled_from(['compose', 'compose', 'compose',
                                     'rename', 'cofactor']))
        t = draw(st.integers(0, F))
        keys = draw(st.lists(st.integers(0, n - 1), min_size=1,
                             max_size=n, unique=True))
        sub = []
        for j in keys:
            if mode == 'compose':
                kind = draw(st.integers(0, 3))
                if kind == 0:
                    v = draw(st.sampled_from([0, F]))
                elif kind == 1:
                    v = tt.var(n, draw(st.integers(0, n - 1)))
                else:
                    v = draw(st.integers(0, F))
            else:
                v = draw(st.integers(0, 7))
            sub.append([j, v])
        return dict(kind='random', n=n, order=list(order), mode=mode, t=t,
                    sub=sub, autoref=draw(st.booleans()),
                    pre=draw(st.booleans()))

    @hypothesis.seed(spec['seed'])
    @settings(max_examples=spec['examples'], deadline=None, database=None,
              suppress_health_check=list(HealthCheck),
              phases=[hypothesis.Phase.generate])
    @given(cases())
    def test(case):
        def body():
            out.case(check_random_case(case), case)
            out.label(f'{case["mode"]}.{len(case["sub"])}')
            out.sample(case)
        if not out.guard(case, body):
            out.case(False, case)
    test()



# ---------------------------------------------------------------------
# W: hundreds of variables (levels and node counts far beyond the small
# sweeps; code paths that switch on the size of the manager)
def _wide_tab(r, k):
    return r.getrandbits(1 << k)


def _wide_val(tab, bits):
    """Value of truth table `tab` (bit i = value at the assignment whose
    j-th support variable is bit j of i)."""
    i = 0
    for j, v in enumerate(bits):
        if v:
            i |= 1 << j
    return (tab >> i) & 1


def _wide_build(b, names, tab, k):
    """Reference for table `tab` over the support variables `names`."""
    def rec(j, idx):
        if j == k:
            return b.true if (tab >> idx) & 1 else b.false
        lo = rec(j + 1, idx)
        hi = rec(j + 1, idx | (1 << j))
        return b.ite(b.var(names[j]), hi, lo)
    return rec(0, 0)


def _wide_eval(b, u, a):
    neg = u < 0
    u = abs(u)
    guard = 0
    while u != 1:
        i, v, w = b.succ(u)
        nxt = w if a.get(b.var_at_level(i), False) else v
        if nxt < 0:
            neg = not neg
        u = abs(nxt)
        guard += 1
        require(guard < 10 ** 4, 'wide.cycle')
    return 0 if neg else 1


def check_wide_case(case):
    """One case at the interpreter's default recursion limit (the worker
    raises it for deep histories; code that sizes itself by
    `sys.getrecursionlimit()` must be seen as a user sees it)."""
    import sys
    old = sys.getrecursionlimit()
    sys.setrecursionlimit(case.get('reclimit', 1000))
    try:
        return _check_wide_case(case)
    finally:
        sys.setrecursionlimit(old)


def _check_wide_case(case):
    import dd.autoref as _ar
    r = random.Random(f'c04wide:{case["seed"]}:{case["idx"]}')
    N = case['n']
    allnames = [f'w{i}' for i in range(N)]
    ar = case['api'] == 'autoref'
    if ar:
        A = _ar.BDD()
        A.declare(*allnames)
        b = A._bdd
    else:
        b = fix.new_bdd(allnames)
        A = b
    k = r.randint(2, 6)
    # support: spread over the whole order, or clustered at the bottom /
    # top, in a random order of significance
    where = r.choice(['spread', 'bottom', 'top'])
    pool = dict(spread=range(N), bottom=range(N - 12, N),
                top=range(12))[where]
    sup = r.sample(list(pool), k)
    names = [allnames[i] for i in sup]
    tf = _wide_tab(r, k)
    u = _wide_build(b, names, tf, k)
    b.incref(u)
    mode = case['mode']
    keys = r.sample(range(k), r.randint(1, k))
    others = [x for x in allnames if x not in names]
    if mode == 'const':
        d = {names[j]: bool(r.getrandbits(1)) for j in keys}
        if r.random() < 0.3:
            d[r.choice(others)] = True      # key outside the support

        def want(bits):
            bb = [d.get(names[j], bits[j]) for j in range(k)]
            return _wide_val(tf, bb)
        ext = []
    elif mode == 'rename':
        new = r.sample(others, len(keys))
        d = {names[j]: new[i] for i, j in enumerate(keys)}
        ext = new

        def want(bits):
            return _wide_val(tf, bits)
    else:
        tabs = {j: _wide_tab(r, k) for j in keys}
        d = {names[j]: _wide_build(b, names, tabs[j], k) for j in keys}
        for g in d.values():
            b.incref(g)
        ext = []

        def want(bits):
            bb = [(_wide_val(tabs[j], bits) if j in tabs else bits[j])
                  for j in range(k)]
            return _wide_val(tf, bb)
    if ar:
        fu = _ar.Function(u, A)
        if mode == 'compose':
            dd_ = {x: _ar.Function(g, A) for x, g in d.items()}
        else:
            dd_ = dict(d)
        res = A.let(dd_, fu)
        rn = res.node
    else:
        rn = b.let(dict(d), u)
    nt = rn != u
    # compare on every assignment of the support (renamed variables carry
    # the value of the variable they replace), everything else False, and
    # on the same with everything else True
    for fill in (False, True):
        for bits in itertools.product((0, 1), repeat=k):
            a = {x: fill for x in allnames} if fill else {}
            for j in range(k):
                a[names[j]] = bool(bits[j])
            if mode == 'rename':
                for j in keys:
                    a[d[names[j]]] = bool(bits[j])
                    a[names[j]] = fill
            got = _wide_eval(b, rn, a)
            require(got == want(list(bits)), 'wide.let_wrong_result',
                    dict(mode=mode, k=k, where=where))
    # the argument is untouched
    for bits in itertools.product((0, 1), repeat=k):
        a = {names[j]: bool(bits[j]) for j in range(k)}
        require(_wide_eval(b, u, a) == _wide_val(tf, list(bits)),
                'wide.argument_changed')
    b.assert_consistent()
    return nt


def run_wide(spec, out):
    for idx in range(spec['examples']):
        for mode in ('const', 'rename', 'compose'):
            case = dict(kind='wide', n=spec['n'], seed=spec['seed'],
                        idx=idx, mode=mode, api=spec['api'])

            def body():
                out.case(check_wide_case(case), case)
                out.label(f'wide.{mode}.{spec["api"]}')
                out.sample(case)
            if not out.guard(case, body):
                out.case(False, case)


def replay_into(case, out):
    if case.get('kind') == 'sandwich':
        return fix.run_sandwich({k: case[k] for k in (
            'kind', 'perturbation', 'pos', 'order', 'seed')}, out,
            _sandwich_calls)
    if case.get('kind') == 'schedule':
        from . import c09
        return c09.replay_into(case, out)
    if case.get('kind') == 'history':
        return H.replay_into(case, out)
    kind = case['kind']
    if kind == 'wide':
        out.guard(case, lambda: check_wide_case(case))
    elif kind == 'random':
        out.guard(case, lambda: check_random_case(case))
    elif kind == 'compose1case':
        def body():
            nm = fix.names(3)
            b, refs = _manager(case, nm)
            den = Den(b, nm)
            if case['form']:
                r = b.compose(refs[case['f']], {case['x']: refs[case['g']]})
            else:
                r = b.let({case['x']: refs[case['g']]}, refs[case['f']])
            want = tt.compose(case['f'], 3, {nm.index(case['x']): case['g']})
            require(den(r) == want, 'compose.wrong_result')
        out.guard(case, body)
    else:
        run_small({k: case[k] for k in
                   ('kind', 'n', 'order', 'variant', 'seed')}, out)
    out.count(1, 0)


def run(spec, out):
    if spec['kind'] == 'sandwich':
        return fix.run_sandwich(spec, out, _sandwich_calls)
    if spec['kind'] == 'schedule':
        from . import c09
        return c09.run_schedule(spec, out)
    if spec['kind'] == 'history':
        return H.run_random(spec, out, HIST_ALPHA, _hist_nontrivial)
    dict(small=run_small, compose1=run_compose1, random=run_random,
         wide=run_wide)[
        spec['kind']](spec, out)
