"""C06 — garbage collection frees exactly the unreachable nodes; counts
stay exact; nothing remembered for a freed node number is re-used."""
from .. import histprop as H

ID = 'C06'
LEVEL = 'exploration'
RULE = (
    'Also dd.autoref worlds (handles, manual incref/decref through any handle of the node), a second manager with repeated copies after collections in the target, one shard under python -O. '
    'S: every position of the dynamic-reordering trigger (whose sifting starts with a collection) for entry points that hold intermediate results as integers (as in C09). '
    'H: Hypothesis-generated histories (dd.bdd, 2-5 variables) over build/'
    'apply/ite/quantify/let (result kept or left as garbage), incref, '
    'decref, decref of a zero-count node, drop, collect_garbage(), '
    'collect_garbage(roots) with arbitrary node subsets, swap, sifting, '
    'reorder(order), traversals; E: every sequence of length <= depth over '
    'a 12-letter fixed-argument alphabet on 2 variables (depth 4 quick, 6 '
    'thorough) by DFS with state cloning. After every step: _ref == '
    'in-degree + ledger for every node, every held reference and all it '
    'reaches is stored and denotes its recorded table, computed table '
    'mentions only live nodes with correct entries, _min_free least; after '
    'collect_garbage(): stored == reachable(held) + terminal exactly; after '
    'every collection a battery of connectives is recomputed. Non-trivial: '
    'a collection freed a node and a later creation re-used a freed number; '
    'distinct = the op list.')
ASSUMPTIONS = [
    'the ledger of external references is the harness own record of its '
    'incref/decref calls',
    'operands of every call are referenced (documented requirement)',
]

ALPHA = {
    'bad': (1, [54, 65535, 65535]), 'full': 2, 'traverse': 3, 'xcopy': 3, 'peer': 3, 'build': 6, 'repeat': 5, 'churn': 3, 'fork': 1, 'var': 2, 'cube': 2, 'apply': 8, 'not': 1, 'ite': 3,
    'quantify': 3, 'let_const': 2, 'let_rename': 2, 'let_compose': 2,
    'add_expr': 2, 'incref': 3, 'decref': 3, 'decref_zero': 1, 'drop': 6,
    'gc': 6, 'gc_roots': 4, 'swap': 3, 'sift': 1, 'reorder_to': 1,
    'traverse': 1, 'declare': 1, 'find_or_add': 1,
}


# fixed-argument alphabet for the exhaustive part (2 variables a, b)
LETTERS = [
    ['build', 0b0110, 0, 1],      # a xor b, kept
    ['build', 0b1000, 0, 0],      # a and b, left as garbage
    ['apply', 0, 2, 3, 1],        # and of the two oldest held, kept
    ['apply', 9, 3, 2, 0],        # garbage result
    ['not', 0, 2, 1],
    ['incref', 0],
    ['decref', 0],
    ['drop', 0],
    ['drop', 1],
    ['gc', 0],
    ['gc_roots', 0b1010, 1],
    ['swap', 0, 0],
]


def nontrivial(w):
    return 'reuse' in w.nontrivial


def plan(tier, seed):
    cfgs = [dict(kind='bdd', nmax=4, init_vars=2),
            dict(kind='bdd', nmax=5, init_vars=3),
            dict(kind='bdd', nmax=3, init_vars=2),
            # handles of dd.autoref take and give back the references
            dict(kind='autoref', nmax=4, init_vars=3),
            # reorderings also happen dynamically (lowered threshold)
            dict(kind='bdd', nmax=5, init_vars=4, reordering=True,
                 reorder_starts=4),
            dict(kind='bdd', nmax=4, init_vars=3, reordering=True,
                 reorder_starts=2)]
    specs = []
    # trigger-position sweeps of dynamic reordering (machinery of C09)
    for s_ in range(6 if tier == 'thorough' else 2):
        specs.append(dict(kind='schedule', seed=seed * 100 + 60 + s_,
                          only=['image', 'preimage', 'copy', 'load_pickle', 'cube', 'add_expr', 'let_compose'],
                          examples=200 if tier == 'thorough' else 35))
    k = 16 if tier == 'thorough' else 12
    for s in range(k):
        specs.append(dict(kind='random', seed=seed * 1000 + s, cfgs=cfgs,
                          examples=1500 if tier == 'thorough' else 400,
                          max_len=60 if tier == 'thorough' else 40))
    for s in range(4 if tier == 'thorough' else 1):
        specs.append(dict(kind='random', seed=seed * 1000 + 90 + s,
                          cfgs=cfgs, pyopt=True,
                          exclude=['bad', 'full', 'decref_zero'],
                          examples=800 if tier == 'thorough' else 200,
                          max_len=40))
    depth = 6 if tier == 'thorough' else 4
    specs += H.exhaustive_plan(dict(kind='bdd', nmax=2, init_vars=2),
                               LETTERS, depth, seed)
    return specs


def run(spec, out):
    if spec['kind'] == 'schedule':
        from . import c09
        return c09.run_schedule(spec, out)
    if spec['kind'] == 'random':
        H.run_random(spec, out, ALPHA, nontrivial)
    else:
        H.run_exhaustive(spec, out, nontrivial)


def replay_into(case, out):
    if case.get('kind') == 'schedule':
        from . import c09
        return c09.replay_into(case, out)
    return H.replay_into(case, out)
