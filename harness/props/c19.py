"""C19 — C back ends: same operator meanings and a reference held for
every handle (decided on the wrapper source text)."""
import gc
import itertools
import random

from .. import tt, fix
from ..denote import Den
from ..viol import Violation, require
from .. import pyxmodel as P

ID = 'C19'
LEVEL = 'exploration'
LEVEL_TEXT = ('differential execution of the wrappers own (transliterated) '
              'method text against stub models of the C libraries; '
              'exhaustive over alias x operand valuation for apply; holds '
              'on everything explored; the real C libraries are never run')
LEVEL_NOTE = ('trusted: my reading of the CUDD / Sylvan / BuDDy function '
              'contracts encoded in harness/pyxmodel.py (argument roles '
              'taken from dd/c_sylvan.pxd and the CUDD manual), the '
              'mechanical rewriting of .pyx text into Python, and '
              'dd.bdd.BDD.apply as reference (tied to truth tables by '
              'C01/C03)')
TECHNIQUE = ('differential testing on transliterated wrapper source: '
             'exhaustive alias x operand enumeration against dd.bdd, '
             'generated handle life-cycle histories and NULL-return fault '
             'injection against a reference-counting stub library')
RULE = (
    'ZDD sequences: 3-8 entry-point calls on ONE structural manager (shared computed table, dead and reclaimed nodes), every result checked. The ZDD apply is swept under three variable orders of the stub library (Cudd_ReadPermZdd / Cudd_ReadInvPermZdd / univ[level]). JSON: dd._copy.load_json (behind dd.cudd.BDD.load) runs against the cudd handle model on intact and damaged files: values, one reference per returned handle, nothing left referenced after a failed load. '
    'Methods of dd/cudd.pyx beyond apply (ite, quantify, forall, exist, let in its three forms incl. _cofactor / _unary_compose / _multi_compose / _rename, _swap, var) run the same way for the reference discipline: the result handle accounts for exactly one reference, temporaries (cubes, variable handles, vectors) are gone afterwards, also when the i-th library call returns NULL. '
    'ZDD: the hand-written recursions of cudd_zdd.pyx (_exist, _forall, _disjoin, _conjoin, _compose, _find_or_add, their roots and _c_ entry points, _dict_to_zdd) are executed on a structural reference-counting model of the CUDD ZDD layer: all functions x cubes for the quantifiers (result compared with the truth-table oracle: these are what apply uses), all / sampled pairs for the others, and for sampled calls the i-th unique-table insertion fails for every i, once as out-of-memory (must raise) and once as reordering (must retry); after dropping all handles every reference must be released. '
    'D+E: for each of dd/cudd.pyx, cudd_zdd.pyx, sylvan.pyx, buddy.pyx the '
    'body of apply is cut out of the source, rewritten mechanically into '
    'Python and executed on stub libraries whose nodes are truth tables of '
    '3 variables; every alias of the dd._abc vocabulary (27) x every '
    'operand valuation: 256 unary, 65 536 binary pairs, the 8 positive '
    'cubes x 256 functions for the quantifier aliases, a seeded sample of '
    'ITE triples; aliases the wrapper rejects are counted, accepted ones '
    'must give the table dd.bdd.BDD.apply gives. F: for every call of a '
    'seeded operand sample the i-th node-producing library call returns '
    'NULL for every i: the method must raise and leave no counter raised. '
    'R: Hypothesis life-cycle histories of wrap / incref / decref / dealloc '
    '/ repeated dealloc on the transliterated Function.init, __cinit__, '
    '__dealloc__, wrap, incref, decref: each live handle accounts for '
    'exactly one library reference, counters never negative, all zero at '
    'the end. Non-trivial: operands non-constant and distinct (apply) / '
    'history with >= 1 repeated dealloc or decref-to-zero; distinct = '
    '(wrapper, alias, operands) resp. the history.')
ASSUMPTIONS = [
    'the extensions cannot be built offline: nothing is run against the '
    'real C libraries',
    'methods that the rewriter does not accept are listed under '
    'not_reached in the evidence and are not claimed',
    'the quantifier aliases are compared on positive cubes as first operand '
    '(CUDD abstracts over the variables of a cube)',
]

WRAPPERS = ['cudd', 'cudd_zdd', 'sylvan', 'buddy']


def aliases():
    import dd._abc as _abc
    return (sorted(_abc.UNARY_OPERATOR_SYMBOLS),
            sorted(_abc.BINARY_OPERATOR_SYMBOLS),
            sorted(_abc.TERNARY_OPERATOR_SYMBOLS))


def plan(tier, seed):
    specs = []
    un, bi, te = aliases()
    for w in WRAPPERS:
        groups = [bi[i::4] for i in range(4)]
        for g in groups:
            specs.append(dict(kind='apply', wrapper=w, ops=g, seed=seed))
        specs.append(dict(kind='apply', wrapper=w, ops=un + te, seed=seed,
                          triples=(40000 if tier == 'thorough' else 4000)))
        specs.append(dict(kind='faults', wrapper=w, seed=seed,
                          samples=600 if tier == 'thorough' else 120))
        specs.append(dict(kind='lifecycle', wrapper=w, seed=seed * 10 + 1,
                          examples=3000 if tier == 'thorough' else 400))
    for p in range(4 if tier == 'thorough' else 2):
        specs.append(dict(kind='methods', seed=seed * 10 + p,
                          samples=4000 if tier == 'thorough' else 600))
    # declarations in the cudd wrappers (accepted, refused, failing)
    specs.append(dict(kind='declare', seed=seed,
                      samples=6000 if tier == 'thorough' else 1500))
    # dd._copy.load_json against the cudd handle discipline
    for p in range(4 if tier == 'thorough' else 1):
        specs.append(dict(kind='jsonload', seed=seed * 10 + p,
                          samples=1500 if tier == 'thorough' else 280))
    # the hand-written ZDD recursions of cudd_zdd.pyx
    for entry in ('_c_exist', '_c_forall'):
        specs.append(dict(kind='zdd', mode='all', entry=entry, part=0,
                          parts=1, seed=seed))
    parts = 4
    for entry in ('_c_disjoin', '_c_conjoin'):
        for p in range(parts):
            specs.append(dict(kind='zdd', mode='all', entry=entry, part=p,
                              parts=parts, seed=seed))
    for p in range(8 if tier == 'thorough' else 2):
        specs.append(dict(kind='zdd', mode='seq', part=p, seed=seed,
                          samples=6000 if tier == 'thorough' else 1200))
    for p in range(8 if tier == 'thorough' else 4):
        specs.append(dict(kind='zdd', mode='faults', part=p, seed=seed,
                          samples=2500 if tier == 'thorough' else 400))
    return specs


def reference():
    nm = P.NAMES
    b = fix.new_bdd(list(nm))
    refs = fix.build_all(b, nm)
    return b, refs, Den(b, nm)


REJECT = (ValueError, AssertionError, NotImplementedError)


def model_or_fail(wrapper, out, spec):
    try:
        return P.Model(wrapper)
    except P.NotReached as e:
        from ..env import HarnessError
        raise HarnessError(f'{wrapper}: {e}')


def run_apply(spec, out):
    w = spec['wrapper']
    M = model_or_fail(w, out, spec)
    if f'{M.mgr_cls}.apply' not in M.reached:
        out.note(f'{w}: apply not reached: {M.not_reached}')
        from ..env import HarnessError
        raise HarnessError(f'{w}.apply does not fit the rewriter: '
                           f'{M.not_reached}')
    b, refs, den = reference()
    un, bi, te = aliases()
    F = P.F
    n = P.N
    funcs = [M.fn(t) for t in range(F + 1)]
    cubes = []
    for m in range(8):
        t = F
        for j in range(3):
            if (m >> j) & 1:
                t &= tt.var(n, j)
        cubes.append(t)
    base = dict(kind='applycase', wrapper=w)
    cnt = nt = 0

    def one(op, ts):
        nonlocal cnt, nt
        args = [funcs[t] for t in ts]
        try:
            r = M.mgr.apply(op, *args)
        except REJECT as e:
            return 'rejected'
        except TypeError as e:
            if 'positional argument' in str(e):
                return 'rejected'      # e.g. BuDDy apply is binary only
            raise
        got = r.node
        want = den(b.apply(op, *[refs[t] for t in ts]))
        cnt += 1
        if got != want:
            out.fail('apply.differs_from_dd_bdd',
                     dict(base, op=op, operands=list(ts)),
                     dict(got=got, want=want))
        return 'ok'

    # the ZDD wrapper reads the library's current variable order: run
    # under several orders (level -> index)
    perms = [[0, 1, 2]]
    if w == 'cudd_zdd':
        perms = [[0, 1, 2], [2, 0, 1], [1, 2, 0]]
    for perm, op in [(p_, o_) for p_ in perms for o_ in spec['ops']]:
        P.ZPERM['invperm'] = list(perm)
        base['perm'] = list(perm)
        if op in un:
            res = {one(op, (t,)) for t in range(F + 1)}
            nt += 254 if 'ok' in res else 0
        elif op in tt.QUANT:
            res = set()
            for c in cubes:
                for t in range(F + 1):
                    res.add(one(op, (c, t)))
            nt += 7 * 254 if 'ok' in res else 0
        elif op in bi:
            res = set()
            for tu in range(F + 1):
                for tv in range(F + 1):
                    res.add(one(op, (tu, tv)))
            nt += 254 * 252 if 'ok' in res else 0
        else:
            r = random.Random(f'c19:{spec["seed"]}:{w}')
            res = set()
            for _ in range(spec.get('triples', 1000)):
                ts = (r.randrange(256), r.randrange(256), r.randrange(256))
                res.add(one(op, ts))
            nt += spec.get('triples', 1000) if 'ok' in res else 0
        out.label(f'{w}.{"accepted" if "ok" in res else "rejected"}.{op}')
        if res == {'rejected', 'ok'}:
            # an operator symbol is supported or not: it is not refused
            # for particular operand values
            out.label(f'{w}.partly_rejected.{op}')
            out.fail('apply.rejected_for_some_operands',
                     dict(base, op=op), dict(op=op))
    P.ZPERM['invperm'] = [0, 1, 2]
    out.count(max(cnt, 1), nt)
    out.sample(dict(base, op=spec['ops'][0], operands=[0x96, 0xe8],
                    reached=M.reached, not_reached=M.not_reached))
    out.exhaustive = True
    del funcs
    gc.collect()


def live_expected(M, holders):
    d = {}
    for f in holders:
        d[f.node] = d.get(f.node, 0) + 1
    return d


def check_apply_refs(M, op, ts, fail_at=None):
    """One apply call under the reference ledger."""
    L = M.L
    gc.collect()
    L.count.clear()
    L.negative = False
    holders = [M.fn(t) for t in ts]
    require(L.live() == live_expected(M, holders),
            'refs.wrap_does_not_take_one_reference',
            dict(live=L.live()))
    L.calls = 0
    L.fail_at = fail_at
    raised = None
    r = None
    try:
        r = M.mgr.apply(op, *holders)
    except Exception as e:
        raised = type(e).__name__
    finally:
        L.fail_at = None
    ncalls = L.calls
    gc.collect()
    if fail_at is not None and fail_at <= ncalls:
        require(raised is not None, 'refs.null_result_not_detected',
                dict(op=op, fail_at=fail_at))
    if raised is None:
        want = live_expected(M, holders + [r])
        require(L.live() == want, 'refs.result_not_referenced_once',
                dict(op=op, live=L.live(), want=want))
        del r
        gc.collect()
    require(L.live() == live_expected(M, holders),
            'refs.temporary_reference_leaked',
            dict(op=op, fail_at=fail_at, live=L.live(),
                 want=live_expected(M, holders)))
    require(not L.negative, 'refs.counter_negative', dict(op=op))
    del holders
    gc.collect()
    require(not L.live(), 'refs.handle_not_released', dict(live=L.live()))
    require(M.dealloc_errors == 0, 'refs.dealloc_raised')
    return ncalls, raised


def run_faults(spec, out):
    w = spec['wrapper']
    M = model_or_fail(w, out, spec)
    un, bi, te = aliases()
    r = random.Random(f'c19f:{spec["seed"]}:{w}')
    base = dict(kind='faultcase', wrapper=w)
    cnt = nt = 0
    ops = un + bi + te
    for k in range(spec['samples']):
        op = ops[k % len(ops)]
        ar = 1 if op in un else (3 if op in te else 2)
        if op in tt.QUANT:
            c = P.F
            for j in range(3):
                if r.random() < 0.5:
                    c &= tt.var(P.N, j)
            ts = (c, r.randrange(256))
        else:
            ts = tuple(r.randrange(256) for _ in range(ar))
        case = dict(base, op=op, operands=list(ts), fail_at=None)
        res = []
        ok = out.guard(case, lambda: res.append(
            check_apply_refs(M, op, ts)))
        cnt += 1
        if not ok:
            continue
        ncalls, raised = res[0]
        if raised is not None:
            continue        # alias not accepted by this wrapper
        if w == 'buddy':
            continue        # BuDDy reports errors through its own handler
        for i in range(1, ncalls + 1):
            c2 = dict(case, fail_at=i)
            out.guard(c2, lambda: check_apply_refs(M, op, ts, i))
            cnt += 1
            nt += 1
    out.count(cnt, nt)
    out.sample(dict(base, op='xor', operands=[0x96, 0xe8], fail_at=1))
    out.exhaustive = False


def check_lifecycle(M, ops):
    L = M.L
    gc.collect()
    L.count.clear()
    L.negative = False
    M.dealloc_errors = 0
    orphans = {}
    handles = []     # [Function, expected library refs it accounts for]
    nt = False
    cuddish = M.name in ('cudd', 'cudd_zdd')
    for op in ops:
        k = op[0]
        if k == 'wrap':
            handles.append([M.fn(op[1] % 256), 1, op[1] % 256])
        elif k == 'dealloc' and handles:
            h = handles[op[1] % len(handles)]
            if not cuddish and h[1] == 0:
                continue        # sylvan/buddy: dealloc runs once
            if cuddish and h[1] > 1:
                # explicit disposal while the user still holds references
                # taken with incref is left to `drop` (it gives back one)
                continue
            h[0].dealloc() if hasattr(h[0], 'dealloc') else None
            if h[1] > 0:
                h[1] -= 1 if cuddish else h[1]
                if not cuddish:
                    h[1] = 0
            else:
                nt = True       # repeated dealloc anticipated by cudd
            if not cuddish:
                # forget the object: its __del__ must not run again
                h[0].__class__ = _Dead
        elif k == 'incref' and handles and cuddish:
            h = handles[op[1] % len(handles)]
            if h[0]._ref > 0 and h[0].node is not None:
                M.mgr.incref(h[0])
                h[1] += 1
        elif k == 'decref' and handles and cuddish:
            h = handles[op[1] % len(handles)]
            if h[0]._ref > 0 and h[0].node is not None:
                if (op[2] >> 1) % 2:
                    # second positional parameter: `recursive`
                    M.mgr.decref(h[0], bool(op[2] % 2))
                else:
                    M.mgr.decref(h[0], recursive=bool(op[2] % 2))
                h[1] -= 1
                if h[0]._ref == 0:
                    nt = True
        elif k == 'drop' and handles:
            h = handles.pop(op[1] % len(handles))
            # disposal gives back exactly one reference; references the
            # user took with incref and never released stay behind
            if h[1] > 1:
                orphans[h[2]] = orphans.get(h[2], 0) + h[1] - 1
            h = None
            gc.collect()
        _lifecycle_invariant(M, handles, cuddish, op, orphans)
    for h in handles:
        if h[1] > 1:
            orphans[h[2]] = orphans.get(h[2], 0) + h[1] - 1
    h = None
    del handles
    gc.collect()
    require(L.live() == orphans, 'refs.not_all_released',
            dict(live=L.live(), want=orphans))
    require(not L.negative, 'refs.counter_negative')
    require(M.dealloc_errors == 0, 'refs.dealloc_raised',
            dict(error=M.last_dealloc_error))
    return nt


def _lifecycle_invariant(M, handles, cuddish, op, orphans):
    # per node: library count == sum over live handles
    L = M.L
    want = dict(orphans)
    for k in range(len(handles)):
        c = handles[k][1]
        if c:
            nd = handles[k][2]
            want[nd] = want.get(nd, 0) + c
    require(L.live() == want, 'refs.count_differs_from_handles',
            dict(live=L.live(), want=want, after=op))
    require(not L.negative, 'refs.counter_negative', dict(after=op))
    if cuddish:
        for k in range(len(handles)):
            require(handles[k][0]._ref == handles[k][1],
                    'refs.lower_bound_wrong',
                    dict(ref=handles[k][0]._ref, want=handles[k][1]))


class _Dead:
    def __del__(self):
        pass


def _node(f, M):
    return getattr(f, '_orig_node', f.node)


def run_lifecycle(spec, out):
    import hypothesis
    from hypothesis import given, settings, strategies as st, HealthCheck
    w = spec['wrapper']
    M = model_or_fail(w, out, spec)
    op = st.one_of(
        st.tuples(st.just('wrap'), st.integers(0, 255)),
        st.tuples(st.just('wrap'), st.integers(0, 3)),
        st.tuples(st.just('dealloc'), st.integers(0, 9)),
        st.tuples(st.just('incref'), st.integers(0, 9)),
        st.tuples(st.just('decref'), st.integers(0, 9), st.integers(0, 3)),
        st.tuples(st.just('drop'), st.integers(0, 9)),
    ).map(list)

    @hypothesis.seed(spec['seed'])
    @settings(max_examples=spec['examples'], deadline=None, database=None,
              suppress_health_check=list(HealthCheck),
              phases=[hypothesis.Phase.generate])
    @given(st.lists(op, min_size=2, max_size=25))
    def test(ops):
        case = dict(kind='lifecycle', wrapper=w, ops=ops)
        res = []
        if out.guard(case, lambda: res.append(check_lifecycle(M, ops))):
            out.case(res[0], case)
            if res[0]:
                out.sample(case)
        else:
            out.case(False, case)
    test()
    out.note(f'{w}: reached {M.reached}; not reached {M.not_reached}')
    out.sample(dict(wrapper=w, reached=M.reached,
                    not_reached=M.not_reached), force=True)


# --------------------------------------------- other methods of cudd.pyx
CUDD_METHODS = ['ite', 'quantify', 'forall', 'exist', 'let_const',
                'let_compose1', 'let_compose2', 'let_rename', '_swap',
                'var', '_load_dddmp']


def method_case(M, meth, a, b, c, k, fail_at=None):
    """Reference discipline of one wrapper method of dd/cudd.pyx (the
    value is compared with the oracle only as an observation)."""
    L = M.L
    L.count.clear()
    L.negative = False
    M.dealloc_errors = 0
    n, F, nm = P.N, P.F, P.NAMES
    u, v, w = M.fn(a), M.fn(b), M.fn(c)
    holders = [u, v, w]
    m = M.mgr
    js = [j for j in range(n) if (k >> j) & 1]
    names = [nm[j] for j in js]
    want = None
    L.calls = 0
    L.fail_at = fail_at
    L.begin_call()
    r = None
    raised = None
    try:
        if meth == 'ite':
            r = m.ite(u, v, w)
            want = tt.ite(a, b, c, n)
        elif meth == 'quantify':
            r = m.quantify(u, set(names), bool(k & 8))
            want = (tt.forall if k & 8 else tt.exists)(a, n, js)
        elif meth == 'forall':
            r = m.forall(names, u)
            want = tt.forall(a, n, js)
        elif meth == 'exist':
            r = m.exist(iter(names), u)
            want = tt.exists(a, n, js)
        elif meth == 'let_const':
            d = {x: bool((k >> (3 + i)) & 1) for i, x in enumerate(names)}
            r = m.let(d, u)
            want = tt.cofactor(a, n, {nm.index(x): val
                                      for x, val in d.items()})
        elif meth == 'let_compose1':
            x = nm[k % n]
            r = m.let({x: v}, u)
            want = tt.compose(a, n, {k % n: b})
        elif meth == 'let_compose2':
            x, y = nm[k % n], nm[(k + 1) % n]
            r = m.let({x: v, y: w}, u)
            want = tt.compose(a, n, {k % n: b, (k + 1) % n: c})
        elif meth == 'let_rename':
            x, y = nm[k % n], nm[(k + 1 + k // 3) % n]
            r = m.let({x: y}, u)
            want = tt.rename(a, n, {k % n: (k + 1 + k // 3) % n})
        elif meth == '_swap':
            x, y = nm[k % n], nm[(k + 1) % n]
            r = m._swap(u, {x: y})
            want = tt.rename(a, n, {k % n: (k + 1) % n,
                                    (k + 1) % n: k % n})
        elif meth == '_load_dddmp':
            # the stub loader hands over a referenced node whose table is
            # encoded in the file name
            # (a node that nothing else references)
            tl = next(x for x in range(c, c + 256)
                      if x % 256 not in (a, b, c)
                      and x % 256 not in P.PERMANENT) % 256
            r = m._load_dddmp(f'{tl}.dddmp')
            want = tl
        else:
            r = m.var(nm[k % n])
            want = tt.var(n, k % n)
    except Exception as e:
        raised = type(e).__name__
    finally:
        L.fail_at = None
    ncalls = L.calls
    require(not L.use_after_release, 'refs.reference_taken_after_release',
            dict(method=meth))
    agree = None
    if raised is None:
        if r is u or r is v or r is w:
            exp = live_expected(M, holders)
        else:
            exp = live_expected(M, holders + [r])
        require(L.live() == exp, 'refs.result_not_referenced_once',
                dict(method=meth, live=L.live(), want=exp))
        agree = (r.node == want)
    elif fail_at is None or fail_at > ncalls:
        raise Violation('refs.method_raised',
                        dict(method=meth, error=raised))
    r = None
    if L.live() != live_expected(M, holders):
        gc.collect()
    require(L.live() == live_expected(M, holders),
            'refs.temporary_reference_leaked',
            dict(method=meth, fail_at=fail_at, live=L.live()))
    u = v = w = None
    holders = None
    if L.live():
        gc.collect()
    require(not L.live(), 'refs.handle_not_released',
            dict(method=meth, live=L.live()))
    require(not L.negative, 'refs.counter_negative', dict(method=meth))
    require(M.dealloc_errors == 0, 'refs.dealloc_raised')
    return ncalls, agree


def run_methods(spec, out):
    M = model_or_fail('cudd', out, spec)
    r = random.Random(f'c19m:{spec["seed"]}')
    cnt = nt = 0
    base = dict(kind='methodcase')
    for i in range(spec['samples']):
        meth = CUDD_METHODS[i % len(CUDD_METHODS)]
        key = {'let_const': 'let', 'let_compose1': 'let',
               'let_compose2': 'let', 'let_rename': 'let'}.get(meth, meth)
        if f'BDD.{key}' not in M.reached:
            out.label(f'not_reached.{meth}')
            continue
        a, b, c, k = (r.randrange(256), r.randrange(256), r.randrange(256),
                      r.randrange(64))
        case = dict(base, method=meth, a=a, b=b, c=c, k=k)
        res = []
        cnt += 1
        if not out.guard(case, lambda: res.append(
                method_case(M, meth, a, b, c, k))):
            continue
        ncalls, agree = res[0]
        out.label(f'value.{"agrees" if agree else "differs"}.{meth}')
        for j in range(1, ncalls + 1):
            out.guard(dict(case, fail_at=j),
                      lambda: method_case(M, meth, a, b, c, k, j))
            cnt += 1
            nt += 1
    out.count(cnt, nt)
    out.note(f'cudd methods: reached {M.reached}; '
             f'not reached {M.not_reached}')
    out.sample(dict(base, method='let_compose2', a=0x96, b=0xe8, c=0x3c,
                    k=1, fail_at=1))


# ------------------------------------------------ cudd_zdd.pyx recursions
ZDD_ENTRY = ['_c_exist', '_c_forall', '_c_disjoin', '_c_conjoin',
             '_c_compose']


def _zdd_args(Z, entry, a, b, c, held):
    """Arguments of one entry point (operands appended to `held`) and the
    expected family (None where the statement says nothing)."""
    names = Z.names
    n = Z.n
    F = tt.full(n)
    want = None
    u = Z.fn(a & F)
    held.append(u)
    if entry in ('_c_exist', '_c_forall'):
        qv = [names[j] for j in range(n) if (b >> j) & 1]
        js = [j for j in range(n) if (b >> j) & 1]
        args = (qv, u)
        want = (tt.exists(a & F, n, js) if entry == '_c_exist'
                else tt.forall(a & F, n, js))
    elif entry in ('_c_disjoin', '_c_conjoin'):
        v = Z.fn(b & F)
        held.append(v)
        args = (u, v)
        want = ((a | b) if entry == '_c_disjoin' else (a & b)) & F
    else:
        d = {}
        for j in range(n):
            if (c >> j) & 1:
                g = Z.fn((b * (j + 3) + c) & F)
                held.append(g)
                d[names[j]] = g
        if not d:
            g = Z.fn(b & F)
            held.append(g)
            d[names[0]] = g
        args = (u, d)
    return args, want


def zdd_sequence(Z, steps):
    """Several entry points in a row on ONE structural manager (shared
    computed table, dead and reclaimed nodes): every result is checked,
    some are kept alive, and at the end nothing may stay referenced."""
    mgr = Z.new_manager()
    Z.dealloc_errors = 0
    kept = []
    for k, (entry, a, b, c) in enumerate(steps):
        held = []
        args, want = _zdd_args(Z, entry, a, b, c, held)
        r = Z.call(entry, *args)
        require(r is not None and r.node is not None, 'zdd.no_result')
        if want is not None:
            got = mgr.family(r.node)
            require(got == want, 'zdd.wrong_result_in_sequence',
                    dict(entry=entry, step=k, got=got, want=want))
        if (a + b + k) % 2:
            kept.append(r)
        if (a + k) % 3 == 0:
            kept.append(held[0])
        r = args = held = None
    kept = None
    live = mgr.live_refs()
    if live:
        gc.collect()
        live = mgr.live_refs()
    require(not live, 'zdd.temporary_reference_leaked',
            dict(live=live, steps=len(steps)))
    require(not mgr.negative, 'zdd.counter_negative')
    require(Z.dealloc_errors == 0, 'zdd.dealloc_raised',
            dict(error=getattr(Z, 'last_dealloc_error', None)))


def zdd_case(Z, entry, a, b, c, fail_at=None, fail_kind='oom'):
    """Run one entry point of cudd_zdd.pyx on a fresh structural ZDD
    manager.  Returns (creations, outcome)."""
    mgr = Z.new_manager()
    names = Z.names
    n = Z.n
    F = tt.full(n)
    Z.dealloc_errors = 0
    held = []
    args, want = _zdd_args(Z, entry, a, b, c, held)
    base_creations = mgr.creations
    mgr.fail_at = fail_at
    mgr.fail_kind = fail_kind
    r = None
    raised = None
    try:
        r = Z.call(entry, *args)
    except Exception as e:
        raised = e
    mgr.fail_at = None
    used = mgr.creations - base_creations
    if raised is not None:
        tb_ok = isinstance(raised, (AssertionError, RuntimeError,
                                    ValueError, MemoryError))
        require(fail_at is not None and fail_kind == 'oom' and tb_ok,
                'zdd.unexpected_exception',
                dict(entry=entry, error=repr(raised)[:200]))
    else:
        require(r is not None and r.node is not None, 'zdd.no_result')
        if want is not None:
            got = mgr.family(r.node)
            require(got == want, 'zdd.quantifier_wrong_result',
                    dict(entry=entry, got=got, want=want))
        # exactly one reference for the handle handed to Python
        exp = {}
        for f in held + [r]:
            if not mgr.is_const(f.node):
                exp[f.node.uid] = exp.get(f.node.uid, 0) + 1
        ext = {x.uid: x for x in mgr.unique.values()}
        for uid, k in exp.items():
            require(ext[uid].ref >= k, 'zdd.handle_not_referenced',
                    dict(entry=entry))
        f = None
    args = None
    raised = None
    r = None
    g = v = u = d = None
    held = None
    live = mgr.live_refs()
    if live:
        gc.collect()        # (only needed if something was in a cycle)
        live = mgr.live_refs()
    require(not live, 'zdd.temporary_reference_leaked',
            dict(entry=entry, live=live, fail_at=fail_at, kind=fail_kind))
    require(not mgr.negative, 'zdd.counter_negative', dict(entry=entry))
    require(Z.dealloc_errors == 0, 'zdd.dealloc_raised',
            dict(error=getattr(Z, 'last_dealloc_error', None)))
    return used


def run_zdd(spec, out):
    try:
        Z = P.ZddModel(3)
    except P.NotReached as e:
        from ..env import HarnessError
        raise HarnessError(f'cudd_zdd: {e}')
    missing = [f for f in ZDD_ENTRY if f not in Z.reached]
    out.note(f'cudd_zdd recursions: reached {Z.reached}; '
             f'not reached {Z.not_reached}')
    if missing:
        from ..env import HarnessError
        raise HarnessError(f'cudd_zdd: not reached {Z.not_reached}')
    base = dict(kind='zddcase')
    cnt = nt = 0
    r = random.Random(f'c19z:{spec["seed"]}:{spec["part"]}')
    if spec['mode'] == 'seq':
        for k in range(spec['samples']):
            pool = [r.randrange(256) for _ in range(4)]
            steps = []
            for _ in range(r.randint(3, 8)):
                entry = r.choice(['_c_exist', '_c_forall', '_c_exist',
                                  '_c_forall', '_c_disjoin', '_c_conjoin',
                                  '_c_compose'])
                a = r.choice(pool)
                b = (r.randrange(1, 8) if entry in ('_c_exist', '_c_forall')
                     else r.choice(pool))
                steps.append([entry, a, b, r.randrange(8)])
            case = dict(kind='zddseq', steps=steps)
            out.guard(case, lambda: zdd_sequence(Z, steps))
            cnt += 1
            nt += 1
    elif spec['mode'] == 'all':
        entry = spec['entry']
        for a in range(256):
            bs = range(8) if entry in ('_c_exist', '_c_forall') \
                else range(spec['part'], 256, spec['parts'])
            for b in bs:
                case = dict(base, entry=entry, a=a, b=b, c=0)
                out.guard(case, lambda: zdd_case(Z, entry, a, b, 0))
                cnt += 1
                nt += 1 if a not in (0, 255) and b else 0
    else:
        for k in range(spec['samples']):
            entry = ZDD_ENTRY[k % len(ZDD_ENTRY)]
            a, b, c = r.randrange(256), r.randrange(256), r.randrange(8)
            if entry in ('_c_exist', '_c_forall'):
                b %= 8
            case = dict(base, entry=entry, a=a, b=b, c=c)
            res = []
            if not out.guard(case, lambda: res.append(
                    zdd_case(Z, entry, a, b, c))):
                cnt += 1
                continue
            cnt += 1
            used = res[0]
            for i in range(1, used + 1):
                for kind in ('oom', 'reorder'):
                    c2 = dict(case, fail_at=i, fail_kind=kind)
                    out.guard(c2, lambda: zdd_case(
                        Z, entry, a, b, c, i, kind))
                    cnt += 1
                    nt += 1
    out.count(cnt, nt)
    out.sample(dict(base, entry='_c_compose', a=0x96, b=0xe8, c=2,
                    fail_at=1, fail_kind='reorder',
                    reached=Z.reached, not_reached=Z.not_reached),
               force=True)
    out.exhaustive = (spec['mode'] == 'all')


_DECL_MODELS = {}


def declare_case(case):
    """`add_var` of the cudd / cudd_zdd manager classes: accepted and
    refused declarations, also with the library call failing; no handle
    exists, so afterwards no library reference may be left."""
    w = case['wrapper']
    if w not in _DECL_MODELS:
        M_ = P.Model(w)
        M_.extend_for_declare()
        _DECL_MODELS[w] = M_
    M = _DECL_MODELS[w]
    L = M.L
    L.count.clear()
    L.negative = False
    m = M.Manager()
    m.vars = set()
    m._index_of_var = {}
    m._var_with_index = {}
    model = {}
    for k, (name, index) in enumerate(case['calls']):
        L.calls = 0
        L.fail_at = case.get('fail_at') if k == case.get('fail_call') \
            else None
        L.begin_call()
        raised = None
        try:
            j = m.add_var(name, index)
        except (ValueError, AssertionError, RuntimeError) as e:
            raised = type(e).__name__
        finally:
            L.fail_at = None
        # the documented outcome
        if name in model:
            ok = index is None or model[name] == index
            want = model[name]
        else:
            want = len(model) if index is None else index
            ok = want not in model.values()
        failed_lib = (k == case.get('fail_call') and
                      case.get('fail_at') is not None and
                      name not in model and L.calls >= case['fail_at'])
        if raised is None:
            require(ok and not failed_lib, 'declare.accepted_bad_call',
                    dict(call=[name, index]))
            require(j == want, 'declare.wrong_index',
                    dict(call=[name, index], got=j, want=want))
            model[name] = want
        else:
            require(not ok or failed_lib, 'declare.refused_good_call',
                    dict(call=[name, index], error=raised))
        require(dict(m._index_of_var) == model and set(m.vars) == set(model)
                and dict(m._var_with_index) == {v: k_ for k_, v in
                                                model.items()},
                'declare.tables_differ',
                dict(index_of_var=dict(m._index_of_var), model=model))
        require(not L.live(), 'declare.reference_leaked',
                dict(call=[name, index], live=L.live(), raised=raised))
        require(not L.negative, 'declare.counter_negative')


def run_declare(spec, out):
    r = random.Random(f'c19d:{spec["seed"]}')
    cnt = nt = 0
    for k in range(spec['samples']):
        calls = []
        for _ in range(r.randint(2, 6)):
            name = r.choice(['x', 'y', 'z', 'w'])
            index = r.choice([None, None, 0, 1, 2, 3, 5])
            calls.append([name, index])
        case = dict(kind='declarecase',
                    wrapper=['cudd', 'cudd_zdd'][k % 2], calls=calls)
        if k % 3 == 0:
            case.update(fail_call=r.randrange(len(calls)), fail_at=1)
        out.guard(case, lambda: declare_case(case))
        cnt += 1
        if any(i is not None for _, i in calls):
            nt += 1
    out.count(cnt, nt)
    out.sample(case, force=True)


_JSON_MODEL = []


def json_load_case(case):
    """`dd._copy.load_json` (the code behind `dd.cudd.BDD.load` of a JSON
    file) against the cudd wrapper model: the functions come back, every
    returned handle holds exactly one library reference, and a load that
    fails half-way gives every reference back."""
    import os
    import dd.autoref as _ar
    import dd._copy as _copy
    from ..denote import Builder
    if not _JSON_MODEL:
        M_ = P.Model('cudd')
        M_.extend_for_json_load()
        _JSON_MODEL.append(M_)
    M = _JSON_MODEL[0]
    M.L.count = {}
    M.L.negative = False
    M.L.fail_at = None
    M.dealloc_errors = 0
    F = P.F
    A = _ar.BDD()
    A.declare(*P.NAMES)
    bd = Builder(A._bdd, P.NAMES)
    tabs = [t & F for t in case['roots']]
    fs = [_ar.Function(bd(t), A) for t in tabs]
    arg = ({f'r{i}': f for i, f in enumerate(fs)} if case['as_dict']
           else list(fs))
    cwd = os.getcwd()
    src, dmg = os.path.join(cwd, 'jl_src.json'), os.path.join(
        cwd, 'jl_in.json')
    _copy.dump_json(arg, src)
    with open(src) as f:
        lines = f.read().split('\n')
    os.remove(src)
    kind, k = case['damage']
    body = [i for i, l in enumerate(lines)
            if l.startswith('"') and ': [' in l and 'level_of_var' not in l
            and 'roots' not in l]
    if kind == 'cut':
        lines = lines[:2 + k % max(1, len(lines) - 2)]
    elif kind == 'missing' and body:
        i = body[k % len(body)]
        lines[i] = lines[i].rsplit(',', 1)[0] + ', 99999]'
    elif kind == 'badlevel' and body:
        i = body[k % len(body)]
        head, rest = lines[i].split('[', 1)
        lines[i] = head + '[9' + rest
    elif kind == 'noroots':
        lines = [l for l in lines if '"roots"' not in l]
    with open(dmg, 'w') as f:
        f.write('\n'.join(lines))
    back = None
    raised = None
    try:
        try:
            back = _copy.load_json(dmg, M.mgr,
                                   load_order=case['load_order'])
        except P.NotReached:
            raise
        except Exception as e:
            raised = type(e).__name__
            e = None
    finally:
        os.remove(dmg)
    if raised is None:
        vals = list(back.values()) if isinstance(back, dict) else list(back)
        keys = list(back) if isinstance(back, dict) else None
        require((keys == [f'r{i}' for i in range(len(tabs))])
                if case['as_dict'] else len(vals) == len(tabs),
                'json.load_shape')
        for f, t in zip(vals, tabs):
            require(f.node == t and f._ref == 1, 'json.load_wrong_function',
                    dict(got=f.node, want=t))
        want = {}
        for f in vals:
            want[f.node] = want.get(f.node, 0) + 1
        gc.collect()
        require(M.L.live() == want, 'json.load_reference_counts',
                dict(live=M.L.live(), want=want))
        f = None
        vals = back = None
    gc.collect()
    live = M.L.live()
    require(not live, 'json.load_leaks_references',
            dict(live=live, raised=raised, damage=case['damage']))
    require(not M.L.negative, 'json.load_counter_negative')
    require(M.dealloc_errors == 0, 'json.load_dealloc_raised',
            dict(error=M.last_dealloc_error))
    return raised


def run_jsonload(spec, out):
    r = random.Random(f'c19j:{spec["seed"]}')
    cnt = nt = 0
    for k in range(spec['samples']):
        kind = ['none', 'cut', 'missing', 'badlevel', 'noroots',
                'cut', 'missing'][k % 7]
        case = dict(kind='jsonload',
                    roots=[r.randrange(256)
                           for _ in range(r.randint(1, 3))],
                    as_dict=bool(r.randrange(2)),
                    load_order=bool(r.randrange(2)),
                    damage=[kind, r.randrange(64)])
        res = []
        out.guard(case, lambda: res.append(json_load_case(case)))
        cnt += 1
        if res and res[0]:
            nt += 1
            out.label('jsonload.failed_load.' + kind)
        elif res:
            out.label('jsonload.loaded.' + kind)
    out.count(cnt, nt)
    out.sample(case, force=True)


def run(spec, out):
    if spec['kind'] == 'jsonload':
        return run_jsonload(spec, out)
    if spec['kind'] == 'declare':
        return run_declare(spec, out)
    if spec['kind'] == 'zdd':
        return run_zdd(spec, out)
    if spec['kind'] == 'methods':
        return run_methods(spec, out)
    dict(apply=run_apply, faults=run_faults, lifecycle=run_lifecycle)[
        spec['kind']](spec, out)


def replay_into(case, out):
    k = case['kind']
    if k == 'methodcase':
        M = P.Model('cudd')
        out.guard(case, lambda: method_case(
            M, case['method'], case['a'], case['b'], case['c'], case['k'],
            case.get('fail_at')))
        out.count(1, 0)
        return
    if k == 'declarecase':
        out.guard(case, lambda: declare_case(case))
        out.count(1, 0)
        return
    if k == 'jsonload':
        out.guard(case, lambda: json_load_case(case))
        out.count(1, 0)
        return
    if k == 'zddseq':
        Z = P.ZddModel(3)
        out.guard(case, lambda: zdd_sequence(Z, case['steps']))
        out.count(1, 0)
        return
    if k == 'zddcase':
        Z = P.ZddModel(3)
        out.guard(case, lambda: zdd_case(
            Z, case['entry'], case['a'], case['b'], case['c'],
            case.get('fail_at'), case.get('fail_kind', 'oom')))
        out.count(1, 0)
        return
    if k == 'applycase' and 'operands' not in case:
        # a finding about the operator as a whole: sweep it again
        return run_apply(dict(kind='apply', wrapper=case['wrapper'],
                              ops=[case['op']], seed=1, triples=4000), out)
    M = P.Model(case['wrapper'])
    if k == 'applycase':
        def body():
            P.ZPERM['invperm'] = list(case.get('perm', [0, 1, 2]))
            b, refs, den = reference()
            fs = [M.fn(t) for t in case['operands']]
            r = M.mgr.apply(case['op'], *fs)
            want = den(b.apply(case['op'],
                               *[refs[t] for t in case['operands']]))
            require(r.node == want, 'apply.differs_from_dd_bdd',
                    dict(got=r.node, want=want))
        out.guard(case, body)
    elif k == 'faultcase':
        out.guard(case, lambda: check_apply_refs(
            M, case['op'], tuple(case['operands']), case.get('fail_at')))
    else:
        out.guard(case, lambda: check_lifecycle(M, case['ops']))
    out.count(1, 0)
