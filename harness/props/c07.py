"""C07 — reordering never changes what a held reference denotes."""
import itertools
import random

from .. import histprop as H
from .. import world as W
from .. import fix

ID = 'C07'
LEVEL = 'exploration'
RULE = (
    'Big: 2600 held functions of 5 variables and multiplexer shapes over 9 variables: every adjacent swap there and back, sifting, reorder to a drawn order, sifting again; all held tables, structure and counts after each. One history shard per tier under python -O. '
    'E: n=3, every set of <=2 held functions (all 32 896 in thorough, a '
    'seeded 1/12 in quick) x 6 starting orders x {each adjacent swap by '
    'level and by name in either argument order, each of the 6 target '
    'orders, sifting}; H: Hypothesis histories over <=5 variables (6 for '
    'pairings) with 1-6 held functions, garbage present or not, sequences '
    'of swap / sifting / reorder(order) / reorder_to_pairs(disjoint pairs), '
    'for dd.bdd and dd.autoref, every worker under its own PYTHONHASHSEED. '
    'Oracle per step: same integer, same truth table by variable name, same '
    'external count for every held reference; full independent manager '
    'invariants; requested order / adjacency reached; four order views '
    'agree; sifting ends with <= |reachable(held)| nodes. Non-trivial: a '
    'swap rewrote an upper-level node in place, or sifting / reorder '
    'changed the order; distinct = (held set, start order, operation) resp. '
    'the op list.')
ASSUMPTIONS = [
    'reorder_to_pairs is given disjoint pairs of distinct variables',
    'PYTHONHASHSEED is an input (sifting iterates over a set of names); '
    'each shard records its hash seed',
]

ALPHA = {
    'build': 8, 'repeat': 5, 'apply': 4, 'ite': 1, 'var': 1, 'quantify': 1,
    'drop': 2, 'gc': 1, 'declare': 1,
    'swap': 8, 'sift': 5, 'reorder_to': 5, 'reorder_pairs': 4,
    'incref': 1, 'decref': 1, 'let_compose': 1,
}
ALPHA_AR = {
    'build': 8, 'repeat': 5, 'funcop': 4, 'ite': 1, 'var': 1, 'drop': 2, 'gc': 1,
    'declare': 1, 'sift': 6, 'reorder_to': 6, 'copy_handle': 1,
    'traverse': 1,
}


def nontrivial(w):
    return bool(w.nontrivial & {'swap', 'sift', 'reorder_to', 'pairs'})


def plan(tier, seed):
    specs = []
    parts = 12
    sel = range(parts) if tier == 'thorough' else [seed % parts]
    for order in fix.orders(3):
        for p in sel:
            specs.append(dict(kind='sets', order=order, part=p, parts=parts))
    cfgs = [dict(kind='bdd', nmax=5, init_vars=4),
            dict(kind='bdd', nmax=5, init_vars=4, reordering=True,
                 reorder_starts=4),
            dict(kind='bdd', nmax=4, init_vars=3),
            dict(kind='bdd', nmax=6, init_vars=6, semantic=False),
            dict(kind='bdd', nmax=3, init_vars=2),
            # sifting with no / one variable
            dict(kind='bdd', nmax=2, init_vars=0),
            dict(kind='bdd', nmax=2, init_vars=1)]
    cfgs_ar = [dict(kind='autoref', nmax=5, init_vars=4),
               dict(kind='autoref', nmax=5, init_vars=4, reordering=True,
                    reorder_starts=8),
               dict(kind='autoref', nmax=4, init_vars=4)]
    for s_ in range(4 if tier == 'thorough' else 1):
        specs.append(dict(kind='big', mode='many', seed=seed * 10 + s_,
                          count=2600))
    for s_ in range(8 if tier == 'thorough' else 2):
        specs.append(dict(kind='big', mode='mux', seed=seed * 10 + s_,
                          count=6 if s_ % 2 else 1))
    # multiplexers in a manager of more than a thousand nodes (size
    # thresholds inside sifting; one variable's sweep multiplies the size)
    for s_ in range(4 if tier == 'thorough' else 1):
        specs.append(dict(kind='big', mode='mux', seed=seed * 10 + 5 + s_,
                          count=300 + 100 * s_))
    k = 16 if tier == 'thorough' else 8
    for s in range(k):
        ar = (s % 4 == 3)
        specs.append(dict(kind='random', seed=seed * 1000 + s,
                          cfgs=cfgs_ar if ar else cfgs, autoref=ar,
                          examples=1200 if tier == 'thorough' else 350,
                          min_len=8, max_len=40))
    for s in range(4 if tier == 'thorough' else 1):
        specs.append(dict(kind='random', seed=seed * 1000 + 90 + s,
                          cfgs=cfgs, autoref=False, pyopt=True,
                          exclude=['bad', 'full', 'decref_zero'],
                          examples=800 if tier == 'thorough' else 200,
                          min_len=8, max_len=40))
    return specs


def ops_for_n3():
    ops = []
    for l in (0, 1):
        for form in range(4):
            ops.append(['swap', l, form])
    for p in range(6):
        ops.append(['reorder_to', p])
    ops.append(['sift'])
    return ops


def run_sets(spec, out):
    order = spec['order']
    cfg = dict(kind='bdd', nmax=3, order=order)
    ops = ops_for_n3()
    sets = [()] + [(f,) for f in range(256)] + \
        list(itertools.combinations(range(256), 2))
    nt = 0
    cnt = 0
    for k in range(spec['part'], len(sets), spec['parts']):
        held = sets[k]
        prefix = [['build', f, 0, 1] for f in held]
        base = W.World(cfg)
        base.run(prefix)
        for op in ops:
            hist = dict(cfg=cfg, ops=prefix + [op])
            w = base.clone()
            cnt += 1
            try:
                w.step(op)
            except Exception as e:
                from ..viol import Violation, innermost_dd_frame
                if not isinstance(e, Violation) and \
                        innermost_dd_frame(e) == 'harness':
                    raise
                b = W.bucket_key(e)
                what, frame = b.split('@', 1)
                out.fail(what, dict(kind='history', **hist),
                         getattr(e, 'detail', None) or repr(e)[:300], frame)
                continue
            if nontrivial(w):
                nt += 1
    out.count(cnt, nt)
    out.sample(dict(kind='history', cfg=cfg,
                    ops=[['build', 0x96, 0, 1], ['build', 0xe8, 0, 1],
                         ['swap', 0, 2]]))
    out.exhaustive = (spec['parts'] == 12)


def run_big(spec, out):
    """Managers far larger than those of the histories: thousands of
    held functions (one swap turns thousands of nodes into garbage), and
    multiplexer shapes for which moving one variable multiplies the
    size."""
    import random
    import dd.bdd as _bdd
    from .. import inv, tt
    from ..denote import Den, Builder
    from ..viol import require
    r = random.Random(f'c07big:{spec["seed"]}:{spec["mode"]}')
    case = dict(kind='big', mode=spec['mode'], seed=spec['seed'],
                count=spec['count'])

    def body():
        if spec['mode'] == 'many':
            n = 5
            nm = fix.names(n)
            b = fix.new_bdd(list(nm))
            bd = Builder(b, nm)
            tabs = r.sample(range(1 << 32), spec['count'])
        else:
            # f = ite(s, F, G), F and G over interleaved disjoint supports
            n = 9
            nm = fix.names(8) + ('s',)
            order = ['s'] + list(nm[:8])
            b = fix.new_bdd(order)
            bd = Builder(b, nm)
            tabs = []
            F_ = tt.full(n)
            for _ in range(spec['count']):
                fa, ga = r.getrandbits(16), r.getrandbits(16)
                tF = tG = 0
                for m in range(1 << n):
                    ev = sum(((m >> (2 * j)) & 1) << j for j in range(4))
                    od = sum(((m >> (2 * j + 1)) & 1) << j for j in range(4))
                    if (fa >> ev) & 1:
                        tF |= 1 << m
                    if (ga >> od) & 1:
                        tG |= 1 << m
                sv = tt.var(n, 8)
                tabs.append(((sv & tF) | (~sv & tG)) & F_)
        refs = [bd(t) for t in tabs]
        led = {}
        for u in refs:
            b.incref(u)
            led[abs(u)] = led.get(abs(u), 0) + 1
        b.collect_garbage()

        def same(what):
            d = Den(b, nm)
            for t, u in zip(tabs, refs):
                require(abs(u) in b._succ and d(u) == t,
                        'big.held_changed_function', dict(after=what))
            inv.check_order(b)
            inv.check_structure(b)
            inv.check_counts(b, led)
        nvars = len(b.vars)
        for i in list(range(nvars - 1)) + list(range(nvars - 2, -1, -1)):
            b.swap(i, i + 1)
            same(f'swap({i},{i + 1})')
        size0 = len(b)
        _bdd.reorder(b)
        require(len(b) <= size0, 'sift.grew',
                dict(before=size0, after=len(b)))
        same('sifting')
        perm = list(b.vars)
        r.shuffle(perm)
        _bdd.reorder(b, {x: l for l, x in enumerate(perm)})
        require([b.var_at_level(l) for l in range(nvars)] == perm,
                'reorder_to.order_not_reached')
        same('reorder to an order')
        _bdd.reorder(b)
        same('sifting again')
    out.guard(case, body)
    out.count(1, 1)
    out.sample(case)


def run(spec, out):
    if spec['kind'] == 'big':
        return run_big(spec, out)
    if spec['kind'] == 'sets':
        run_sets(spec, out)
    else:
        H.run_random(spec, out, ALPHA_AR if spec.get('autoref') else ALPHA,
                     nontrivial)


def replay_into(case, out):
    if case.get('kind') == 'big':
        return run_big(dict(case, count=case.get('count', 2600 if case['mode'] == 'many' else 1)), out)
    return H.replay_into(case, out)
