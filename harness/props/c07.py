"""C07 — reordering never changes what a held reference denotes."""
import itertools
import random

from .. import histprop as H
from .. import world as W
from .. import fix

ID = 'C07'
LEVEL = 'exploration'
RULE = (
    'E: n=3, every set of <=2 held functions (all 32 896 in thorough, a '
    'seeded 1/12 in quick) x 6 starting orders x {each adjacent swap by '
    'level and by name in either argument order, each of the 6 target '
    'orders, sifting}; H: Hypothesis histories over <=5 variables (6 for '
    'pairings) with 1-6 held functions, garbage present or not, sequences '
    'of swap / sifting / reorder(order) / reorder_to_pairs(disjoint pairs), '
    'for dd.bdd and dd.autoref, every worker under its own PYTHONHASHSEED. '
    'Oracle per step: same integer, same truth table by variable name, same '
    'external count for every held reference; full independent manager '
    'invariants; requested order / adjacency reached; four order views '
    'agree; sifting ends with <= |reachable(held)| nodes. Non-trivial: a '
    'swap rewrote an upper-level node in place, or sifting / reorder '
    'changed the order; distinct = (held set, start order, operation) resp. '
    'the op list.')
ASSUMPTIONS = [
    'reorder_to_pairs is given disjoint pairs of distinct variables',
    'PYTHONHASHSEED is an input (sifting iterates over a set of names); '
    'each shard records its hash seed',
]

ALPHA = {
    'build': 8, 'repeat': 5, 'apply': 4, 'ite': 1, 'var': 1, 'quantify': 1,
    'drop': 2, 'gc': 1, 'declare': 1,
    'swap': 8, 'sift': 5, 'reorder_to': 5, 'reorder_pairs': 4,
    'incref': 1, 'decref': 1, 'let_compose': 1,
}
ALPHA_AR = {
    'build': 8, 'repeat': 5, 'funcop': 4, 'ite': 1, 'var': 1, 'drop': 2, 'gc': 1,
    'declare': 1, 'sift': 6, 'reorder_to': 6, 'copy_handle': 1,
    'traverse': 1,
}


def nontrivial(w):
    return bool(w.nontrivial & {'swap', 'sift', 'reorder_to', 'pairs'})


def plan(tier, seed):
    specs = []
    parts = 12
    sel = range(parts) if tier == 'thorough' else [seed % parts]
    for order in fix.orders(3):
        for p in sel:
            specs.append(dict(kind='sets', order=order, part=p, parts=parts))
    cfgs = [dict(kind='bdd', nmax=5, init_vars=4),
            dict(kind='bdd', nmax=5, init_vars=4, reordering=True,
                 reorder_starts=4),
            dict(kind='bdd', nmax=4, init_vars=3),
            dict(kind='bdd', nmax=6, init_vars=6, semantic=False),
            dict(kind='bdd', nmax=3, init_vars=2),
            # sifting with no / one variable
            dict(kind='bdd', nmax=2, init_vars=0),
            dict(kind='bdd', nmax=2, init_vars=1)]
    cfgs_ar = [dict(kind='autoref', nmax=5, init_vars=4),
               dict(kind='autoref', nmax=5, init_vars=4, reordering=True,
                    reorder_starts=8),
               dict(kind='autoref', nmax=4, init_vars=4)]
    k = 16 if tier == 'thorough' else 8
    for s in range(k):
        ar = (s % 4 == 3)
        specs.append(dict(kind='random', seed=seed * 1000 + s,
                          cfgs=cfgs_ar if ar else cfgs, autoref=ar,
                          examples=1200 if tier == 'thorough' else 350,
                          min_len=8, max_len=40))
    return specs


def ops_for_n3():
    ops = []
    for l in (0, 1):
        for form in range(4):
            ops.append(['swap', l, form])
    for p in range(6):
        ops.append(['reorder_to', p])
    ops.append(['sift'])
    return ops


def run_sets(spec, out):
    order = spec['order']
    cfg = dict(kind='bdd', nmax=3, order=order)
    ops = ops_for_n3()
    sets = [()] + [(f,) for f in range(256)] + \
        list(itertools.combinations(range(256), 2))
    nt = 0
    cnt = 0
    for k in range(spec['part'], len(sets), spec['parts']):
        held = sets[k]
        prefix = [['build', f, 0, 1] for f in held]
        base = W.World(cfg)
        base.run(prefix)
        for op in ops:
            hist = dict(cfg=cfg, ops=prefix + [op])
            w = base.clone()
            cnt += 1
            try:
                w.step(op)
            except Exception as e:
                from ..viol import Violation, innermost_dd_frame
                if not isinstance(e, Violation) and \
                        innermost_dd_frame(e) == 'harness':
                    raise
                b = W.bucket_key(e)
                what, frame = b.split('@', 1)
                out.fail(what, dict(kind='history', **hist),
                         getattr(e, 'detail', None) or repr(e)[:300], frame)
                continue
            if nontrivial(w):
                nt += 1
    out.count(cnt, nt)
    out.sample(dict(kind='history', cfg=cfg,
                    ops=[['build', 0x96, 0, 1], ['build', 0xe8, 0, 1],
                         ['swap', 0, 2]]))
    out.exhaustive = (spec['parts'] == 12)


def run(spec, out):
    if spec['kind'] == 'sets':
        run_sets(spec, out)
    else:
        H.run_random(spec, out, ALPHA_AR if spec.get('autoref') else ALPHA,
                     nontrivial)


replay_into = H.replay_into
