"""C17 — an operation that raises leaves the manager and all references
intact."""
from .. import histprop as H
from .. import world as W

ID = 'C17'
LEVEL = 'fault_enumeration'
LEVEL_TEXT = ('fault enumeration: every kind of rejected call of a fixed '
              'catalogue (48 kinds) is injected at generated points of '
              'generated histories and, exhaustively, after every prefix of '
              'fixed histories at every argument position; holds on '
              'everything explored')
RULE = (
    'DDDMP: a load of a damaged file that fails, then a valid load (engine of C16). Further kinds: new name at a used level, copy_vars with conflicting levels, max_nodes reached (with reordering requests off: see KNOWN_FINDINGS). '
    'MDD: rejected find_or_add / apply / ite calls inside generated MDD histories must leave the MDD tables untouched. '
    'H: Hypothesis histories (dd.bdd and dd.autoref, dynamic reordering '
    'off and on) as in C06/C08 into which rejected calls are injected: '
    'undeclared variable (var, add_expr, let x3 as key or value, quantify, '
    'cube, level_of_var, var_at_level), unknown / foreign node (apply, ite, '
    '@n, to_expr, count, let, quantify, Function of another manager), '
    'unknown operator, every wrong arity, syntax errors (a valid formula '
    'with one token deleted / duplicated / replaced / truncated at every '
    'token position), conflicting add_var, bad orders for reorder and the '
    'constructor, undeclare_vars of used / unknown variables, count with '
    'too few variables, find_or_add with bad level / missing children, swap '
    'of non-adjacent / equal / unknown levels, unreadable files (missing, '
    'wrong extension, pickle truncated or with a flipped byte at every '
    'offset, JSON corrupted at every line), image outside its precondition, '
    'calls that fail late (after sub-formulas or earlier keys created '
    'nodes). E: for each of 3 fixed prefixes every (kind, position) pair. '
    'Oracle: the exception is never the internal reordering signal; right '
    'after the call and after every later step: all held tables unchanged, '
    'independent manager invariants with the ledger unchanged (exact '
    'counts), order a valid bijection, later operations and collections '
    'behave normally (full C06/C08 invariant set). Non-trivial: the '
    'rejected call had already created a node or touched a count before '
    'failing; distinct = the op list.')
ASSUMPTIONS = [
    'the type of the exception is not constrained (the property says '
    '"fails with an exception")',
    'a rejected call must leave the dynamic-reordering switch as it was '
    '("subsequent operations behave normally")',
    'calls of the catalogue that happen to be accepted (e.g. a token '
    'deletion that leaves a valid formula) are counted and not judged',
]

NK = len(W.World.BAD_KINDS)
ALPHA = {
    'bad': (30, [NK - 1, 65535, 65535]),
    'build': 8, 'var': 1, 'cube': 1, 'apply': 5, 'ite': 1, 'quantify': 2,
    'let_const': 1, 'let_rename': 1, 'let_compose': 2, 'add_expr': 2,
    'drop': 4, 'gc': 3, 'swap': 2, 'sift': 1, 'reorder_to': 1,
    'declare': 2, 'add_var': 3, 'full': 2, 'xcopy_vars': 5, 'peer': 4,
    'xcopy': 3, 'incref': 1, 'decref': 1, 'funcop': 2, 'traverse': 1,
    'file_roundtrip': 4, 'repeat': 2,
}


def nontrivial(w):
    return 'partial' in w.nontrivial


def plan(tier, seed):
    off = [dict(kind='bdd', nmax=4, init_vars=3),
           dict(kind='autoref', nmax=4, init_vars=3),
           dict(kind='autoref', nmax=5, init_vars=4)]
    on = [dict(kind='autoref', nmax=5, init_vars=4, reordering=True,
               reorder_starts=4),
          dict(kind='bdd', nmax=4, init_vars=3, reordering=True,
               reorder_starts=2)]
    specs = []
    for s in range(16 if tier == 'thorough' else 10):
        specs.append(dict(kind='random', seed=seed * 1000 + s,
                          cfgs=on if s % 3 == 2 else off,
                          examples=1200 if tier == 'thorough' else 150,
                          min_len=8, max_len=40))
    # the MDD manager: rejected calls inside MDD histories (engine of C15)
    for s in range(4 if tier == 'thorough' else 2):
        specs.append(dict(kind='algebra', seed=seed * 100 + 90 + s,
                          examples=1500 if tier == 'thorough' else 300))
    for s in range(4 if tier == 'thorough' else 1):
        specs.append(dict(kind='dddmp', seed=seed * 100 + 70 + s,
                          examples=1500 if tier == 'thorough' else 200))
    for pi in range(3):
        for api in ('bdd', 'autoref'):
            specs.append(dict(kind='catalogue', prefix=pi, api=api,
                              positions=24 if tier == 'thorough' else 8,
                              seed=seed))
            if pi < 2 or tier == 'thorough':
                specs.append(dict(kind='catalogue', prefix=pi, api=api,
                                  reordering=True,
                                  positions=12 if tier == 'thorough' else 4,
                                  seed=seed))
    return specs


PREFIXES = [
    [['build', 0b01101001, 0, 1], ['build', 0b11101000, 2, 1],
     ['apply', 0, 2, 3, 1]],
    [['build', 0b10010110, 0, 1], ['build', 0b00011110, 1, 0], ['gc', 0],
     ['build', 0b11001010, 3, 1], ['swap', 0, 0], ['apply', 4, 2, 3, 1]],
    [['declare', 3], ['build', 0b0110100110010110, 0, 1],
     ['quantify', 2, 0b10, 0, 0, 1], ['drop', 0], ['gc', 1],
     ['build', 0b1111000010101100, 2, 1]],
]


def run_catalogue(spec, out):
    """Every kind x a range of argument positions after a fixed prefix."""
    cfg = dict(kind=spec['api'], nmax=4, init_vars=3)
    if spec.get('reordering'):
        cfg.update(reordering=True, reorder_starts=4)
    prefix = PREFIXES[spec['prefix']]
    cnt = nt = 0
    for kind in range(NK):
        for pos in range(spec['positions']):
            for a in (pos, pos + 7):
                ops = prefix + [['bad', kind, a, pos], ['gc', 1],
                                ['apply', 1, 2, 3, 1],
                                ['file_roundtrip', 0, a], ['sift']]
                hist = dict(cfg=cfg, ops=ops)
                if spec.get('shutdown'):
                    hist['shutdown'] = a
                w = W.run_and_collect(hist, out, shrink=False)
                cnt += 1
                if w is not None:
                    for k, v in w.labels.items():
                        if k.startswith('bad.'):
                            out.label(k, v)
                    if 'partial' in w.nontrivial:
                        nt += 1
    out.count(cnt, nt)
    out.sample(dict(kind='history', cfg=cfg,
                    ops=prefix + [['bad', 22, 3, 5], ['gc', 1]]))
    out.exhaustive = True


def run(spec, out):
    if spec['kind'] == 'algebra':
        from . import c15
        return c15.run_algebra(spec, out)
    if spec['kind'] == 'dddmp':
        # a DDDMP load that fails, then a valid one (engine of C16)
        from . import c16
        return c16.run_random(dict(spec, poison_only=True), out)
    if spec['kind'] == 'random':
        H.run_random(spec, out, ALPHA, nontrivial)
    else:
        run_catalogue(spec, out)


def probes():
    """Open known finding: `max_nodes` reached in the middle of a level
    swap (RuntimeError 'full' from find_or_add inside `_swap`) leaves the
    levels half-swapped."""
    from .. import fix, inv, tt
    from ..denote import Den
    from ..viol import Violation
    names = ('a', 'b', 'ab')
    b = fix.new_bdd(list(names))
    u = b.add_expr(r'(a /\ b) \/ (~ a /\ ab)')
    b.incref(u)
    b.collect_garbage()
    want = Den(b, names)(u)
    b.max_nodes = len(b._succ)
    key = 'max-nodes-reached-during-swap'
    try:
        b.swap(0, 1)
    except RuntimeError:
        pass
    else:
        return [(key, 'swap stayed below the limit', False)]
    b.max_nodes = 10 ** 9
    try:
        inv.check_order(b)
        inv.check_structure(b)
        if Den(b, names)(u) != want:
            raise Violation('held reference denotes another function')
    except (Violation, AssertionError, KeyError) as e:
        return [(key, 'swap(0, 1) with max_nodes == len(bdd) raises '
                 "RuntimeError('full') after moving some nodes; "
                 f'afterwards: {type(e).__name__}({e})', True)]
    return [(key, 'manager intact after the failed swap', False)]


def replay_into(case, out):
    if case.get('kind') == 'algebra':
        from . import c15
        return c15.replay_into(case, out)
    if case.get('kind') == 'random' and 'poison' in case:
        from . import c16
        return c16.replay_into(case, out)
    return H.replay_into(case, out)
