"""C16 — a DDDMP file loads to the functions it describes."""
import os
import random

from .. import tt, fix, inv
from ..denote import Den, Builder, reachable
from ..viol import Violation, require

ID = 'C16'
LEVEL = 'exploration'
RULE = (
    'Names may be numbers (the parser turns them into int). '
    'Variable names include legal names spelled like the keywords of the format (mode, add, ids, ver, nvars, dd ...); some loads are preceded by a load of a damaged file that fails. '
    'R: the harness writes text-mode DDDMP files from Hypothesis-drawn '
    'parameters: 1-3 root functions over <=5 named variables (reduced DAG '
    'with complemented else-edges only, taken from a scratch manager and '
    'detached as tuples); node numbering = a drawn linear extension of '
    'children-before-parents with terminal 1, lines written in a drawn '
    'order; .varinfo 0 (ids), 1 (permids), 3 (names); with '
    '.orderedvarnames (nvars >= nsuppvars, unused variables interleaved) or '
    'with only .suppvarnames + .permids containing gaps; arbitrary distinct '
    '.ids; complemented and repeated roots; version line 1.0/2.0; comment '
    'lines. E: every function of 2 variables x 3 varinfo modes x both '
    'name layouts x 2 orders with a reversed numbering. Oracle: direct '
    'evaluation of the node list of the file; set of tables of '
    'loaded.roots == set of tables of the root entries, by variable name; '
    'declared names and their relative order as in the file; independent '
    'manager invariants. Non-trivial: the numbering differs from the '
    'loader own bottom-up allocation order; distinct = file text.')
ASSUMPTIONS = [
    'files carry variable names (.orderedvarnames or .suppvarnames): the '
    'property compares by variable name',
    'the generated files follow the format as written by CUDD: then-edges '
    'regular, terminal numbered 1, .permids equal to the position in '
    '.orderedvarnames when that line is present',
]

VARNAMES = ['a', 'b1', 'c_2', "d'", 'E.x']
ATNAMES = ['x@0', 'y@1', 'q@', 'a@b', 'r0@2']
# legal names that are spelled like the format's keywords (without the
# leading dot)
KEYWORDISH = ['mode', 'add', 'ids', 'ver', 'nvars', 'dd', 'nnodes',
              'rootids', 'permids', 'T']
EXTRA = ['u0', 'u1', 'u2']
NUMERIC = ['3', '7', '10', '0', '42', '5', '11']


def plan(tier, seed):
    specs = [dict(kind='small', seed=seed)]
    for s in range(48 if tier == 'thorough' else 6):
        specs.append(dict(kind='random', seed=seed * 100 + s,
                          examples=2500 if tier == 'thorough' else 250))
    return specs


def write_file(case, path):
    """Returns (names universe, expected root tables, text, nontrivial)."""
    n = case['n']
    nm = list(VARNAMES[:n])
    kw = case.get('kw', 0)
    for k_ in range(n):
        if (kw >> k_) & 1:
            nm[k_] = KEYWORDISH[(kw + 2 * k_) % (len(KEYWORDISH) - 1)]
    # names that are numbers (dumps of managers without names)
    numeric = case.get('numeric', 0)
    for k_ in range(n):
        if (numeric >> k_) & 1:
            nm[k_] = NUMERIC[(numeric + k_) % len(NUMERIC)]
    for k_ in range(n):
        if (case.get('at', 0) >> k_) & 1:
            nm[k_] = ATNAMES[k_]
    if len(set(nm)) < n:
        nm = list(VARNAMES[:n])
    nm = tuple(nm)
    order = [nm[i] for i in case['order']]
    F = tt.full(n)
    b = fix.new_bdd(order)
    bd = Builder(b, nm)
    tabs = [t & F for t in case['roots']]
    if all(t in (0, F) for t in tabs):
        # a file needs at least one support variable (its .ids line is
        # a non-empty list): make the first root a variable
        tabs[0] = tt.var(n, 0)
    roots = [bd(t) for t in tabs]
    nodes = sorted(reachable(b, roots) - {1})
    # numbering: linear extension children-before-parents
    rnd = random.Random(case['numbering'])
    if case['numbering'] == 0:
        # the loader's own allocation order (bottom level first)
        seq = sorted(nodes, key=lambda u: (-b._succ[u][0], u))
    else:
        remaining = set(nodes)
        seq = []
        placed = {1}
        while remaining:
            ready = sorted(u for u in remaining
                           if abs(b._succ[u][1]) in placed and
                           b._succ[u][2] in placed)
            u = rnd.choice(ready)
            seq.append(u)
            placed.add(u)
            remaining.discard(u)
    num = {1: 1}
    for k, u in enumerate(seq):
        num[u] = k + 2
    natural = sorted(nodes, key=lambda u: (-b._succ[u][0], u))
    # support variables (those labelling some node), in file order
    sup_levels = sorted({b._succ[u][0] for u in nodes})
    sup = [order[l] for l in sup_levels]
    layout = case['layout']
    if layout == 'ordered':
        # all declared names plus unused extras interleaved
        full = list(order)
        for k, x in enumerate(EXTRA[:case['extra']]):
            full.insert((case['numbering'] + 3 * k) % (len(full) + 1), x)
        pos = {x: i for i, x in enumerate(full)}
        permid = {x: pos[x] for x in sup}
        nvars = len(full)
    else:
        full = None
        gaps = case['gaps']
        permid = {}
        p = gaps[0] % 3
        for k, x in enumerate(sup):
            permid[x] = p
            p += 1 + gaps[(k + 1) % len(gaps)] % 3
        nvars = p + 1
    # the support variables are listed (with their ids / permids) in index
    # order, which need not be level order (a diagram dumped after
    # reordering): list them in a drawn order
    rnd4 = random.Random(case['numbering'] * 7 + 3)
    if case.get('shuffle_supp', case['numbering'] % 2):
        sup = list(sup)
        rnd4.shuffle(sup)
    ids_pool = list(range(len(sup) + 3))
    rnd2 = random.Random(case['numbering'] + 17)
    rnd2.shuffle(ids_pool)
    vid = {x: ids_pool[k] for k, x in enumerate(sup)}
    varinfo = case['varinfo']
    if varinfo == 3 and layout != 'ordered':
        varinfo = 0
    lines = []
    if case['comments']:
        lines.append('# generated by the verification harness')
    lines.append(f'.ver DDDMP-{case["version"]}.0')
    lines.append('.mode A')
    lines.append(f'.varinfo {varinfo}')
    if case['comments']:
        lines.append('.dd generated.bdd')
    lines.append(f'.nnodes {len(nodes) + 1}')
    lines.append(f'.nvars {nvars}')
    lines.append(f'.nsuppvars {len(sup)}')
    if full is not None:
        lines.append('.orderedvarnames ' + ' '.join(full))
    if full is None or case['comments']:
        lines.append('.suppvarnames ' + ' '.join(sup))
    lines.append('.ids ' + ' '.join(str(vid[x]) for x in sup))
    lines.append('.permids ' + ' '.join(str(permid[x]) for x in sup))
    if case['comments']:
        lines.append('.auxids ' + ' '.join(str(vid[x]) for x in sup))
    rootids = [(num[abs(u)] if u > 0 else -num[abs(u)]) for u in roots]
    lines.append(f'.nroots {len(rootids)}')
    lines.append('.rootids ' + ' '.join(map(str, rootids)))
    lines.append('.nodes')
    body = ['1 T 1 0 0']
    file_nodes = {1: None}
    for u in seq:
        i, lo, hi = b._succ[u]
        x = order[i]
        info = {0: vid[x], 1: permid[x], 3: x}[varinfo]
        then = num[hi]
        els = num[abs(lo)] if lo > 0 else -num[abs(lo)]
        body.append(f'{num[u]} {info} {vid[x]} {then} {els}')
        file_nodes[num[u]] = (x, then, els)
    if case['line_order'] and len(body) > 1:
        rnd3 = random.Random(case['line_order'])
        rnd3.shuffle(body)
    lines += body
    lines.append('.end')
    tc = case.get('trailing', 0)
    if tc:
        # a comment after the content of some header lines
        k_ = 0
        for i_, l_ in enumerate(lines):
            if l_ == '.nodes':
                break
            if l_.startswith('.') and not l_.startswith('.ver'):
                if (tc >> (k_ % 8)) & 1:
                    lines[i_] = l_ + ' # note'
                k_ += 1
    text = '\n'.join(lines) + '\n'
    with open(path, 'w') as f:
        f.write(text)
    # expected: evaluate the *file's* node list directly
    idx = {x: j for j, x in enumerate(nm)}
    memo = {1: F}

    def ev(k):
        a = abs(k)
        if a not in memo:
            x, then, els = file_nodes[a]
            memo[a] = tt.ite(tt.var(n, idx[x]), ev(then), ev(els), n)
        return memo[a] if k > 0 else (~memo[a] & F)
    want = [ev(r) for r in rootids]
    decl = full if full is not None else sorted(sup, key=permid.get)
    return nm, want, text, decl, (seq != natural)


def check_case(case, cwd):
    import dd.dddmp as _dddmp
    path = os.path.join(cwd, 'g.dddmp')
    if case.get('poison'):
        # a load that fails first (truncated / damaged file): the next,
        # valid load must not be affected by it
        other = dict(case, poison=0, n=max(1, (case['n'] + 1) % 6),
                     layout='ordered', extra=2,
                     roots=[r_ + 1 for r_ in case['roots']])
        other['order'] = list(range(other['n']))
        _, _, text2, _, _ = write_file(other, path)
        lines2 = text2.split('\n')
        k2 = case['poison'] % len(lines2)
        mode2 = case['poison'] % 3
        if mode2 == 0:
            lines2 = lines2[:max(3, k2)]
        elif mode2 == 1:
            lines2[-3] = '9 zz 9 1 1'
        else:
            lines2.insert(max(4, k2), '.nosuchkeyword 1')
        with open(path, 'w') as f2:
            f2.write('\n'.join(lines2) + '\n')
        try:
            _dddmp.load(path)
        except Exception:
            pass
        os.remove(path)
    nm, want, text, decl, nt = write_file(case, path)
    try:
        bdd = _dddmp.load(path)
    finally:
        os.remove(path)

    class Quiet(type(bdd)):
        def __del__(self):
            pass
    bdd.__class__ = Quiet
    n = len(nm)
    # (the parser turns names that are numbers into `int`)
    got_names = sorted(bdd.vars, key=bdd.vars.get)
    require([str(x) for x in got_names] == list(decl),
            'dddmp.vars_differ', dict(got=got_names, want=decl))
    key_of = {str(x): x for x in got_names}
    nm = tuple(key_of.get(x, x) for x in nm)
    decl = [key_of.get(x, x) for x in decl]
    for r in bdd.roots:
        require(isinstance(r, int) and abs(r) in bdd._succ,
                'dddmp.root_not_a_node', dict(r=r))
    # denote over the harness universe: undeclared names never occur
    names = tuple(nm) + tuple(x for x in decl if x not in nm)
    N = len(names)
    den = Den(bdd, names)
    got = {den(r) for r in bdd.roots}
    wantw = {tt.widen(t, n, N) for t in want}
    require(got == wantw, 'dddmp.roots_denote_other_functions',
            dict(got=sorted(got)[:4], want=sorted(wantw)[:4], text=text))
    inv.check_manager(bdd, {}, names, semantic=(N <= 6))
    return nt


def run_random(spec, out):
    import hypothesis
    from hypothesis import given, settings, strategies as st, HealthCheck
    cwd = os.getcwd()

    @st.composite
    def cases(draw):
        n = draw(st.sampled_from([1, 2, 3, 3, 4, 4, 5, 5]))
        F = tt.full(n)
        return dict(
            kind='random', n=n,
            order=list(draw(st.permutations(list(range(n))))),
            roots=draw(st.lists(st.integers(0, F), min_size=1, max_size=3)),
            numbering=draw(st.integers(0, 10 ** 6)),
            line_order=draw(st.integers(0, 50)),
            layout=draw(st.sampled_from(['ordered', 'supp'])),
            extra=draw(st.integers(0, 3)),
            gaps=draw(st.lists(st.integers(0, 2), min_size=1, max_size=6)),
            varinfo=draw(st.sampled_from([0, 1, 3])),
            version=draw(st.sampled_from([1, 2])),
            kw=draw(st.sampled_from([0, 0, 0, 1, 2, 3, 5, 9, 31])),
            numeric=draw(st.sampled_from([0, 0, 0, 1, 2, 3, 6, 12, 31])),
            at=draw(st.sampled_from([0, 0, 0, 1, 2, 5, 31])),
            trailing=draw(st.sampled_from([0, 0, 0, 1, 4, 16, 255])),
            poison=draw(st.sampled_from(
                [1, 2, 3, 4, 5, 7, 11, 14, 20, 27] if spec.get('poison_only')
                else [0, 0, 1, 2, 3, 4, 7, 11, 14])),
            comments=draw(st.booleans()))

    @hypothesis.seed(spec['seed'])
    @settings(max_examples=spec['examples'], deadline=None, database=None,
              suppress_health_check=list(HealthCheck),
              phases=[hypothesis.Phase.generate])
    @given(cases())
    def test(case):
        def body():
            nt = check_case(case, cwd)
            out.case(nt, case)
            out.label(f'varinfo={case["varinfo"]}.{case["layout"]}')
            out.label('numbering.' + ('differs' if nt else 'natural'))
            if nt:
                out.sample(case)
        if not out.guard(case, body):
            out.case(False, case)
    test()


def run_small(spec, out):
    cwd = os.getcwd()
    cnt = nt = 0
    for t in range(16):
        for varinfo in (0, 1, 3):
            for layout in ('ordered', 'supp'):
                for order in ([0, 1], [1, 0]):
                    for numbering in (0, 5):
                        case = dict(kind='random', n=2, order=order,
                                    roots=[t, 15 - t, 6], numbering=numbering,
                                    line_order=numbering, layout=layout,
                                    extra=1, gaps=[1, 2, 0], varinfo=varinfo,
                                    version=2, comments=False)
                        res = []
                        out.guard(case, lambda: res.append(
                            check_case(case, cwd)))
                        cnt += 1
                        if res and res[0]:
                            nt += 1
    out.count(cnt, nt)
    out.sample(case)
    out.exhaustive = True


def run(spec, out):
    dict(small=run_small, random=run_random)[spec['kind']](spec, out)


def replay_into(case, out):
    out.guard(case, lambda: check_case(case, os.getcwd()))
    out.count(1, 0)
