"""C02 — canonical form: references are equal exactly when the functions
are equal; the stored diagram is always reduced and ordered."""
import os
import random

from .. import tt, fix, inv
from .. import histprop as H
from ..denote import Den, Builder
from ..viol import Violation, require

ID = 'C02'
LEVEL = 'exploration'
RULE = (
    'S: every position of the dynamic-reordering trigger for each entry point of C09 (results must be the canonical references of their tables; full invariants). '
    'E: for n<=4 every function (2,4,16,256,65 536) under every order '
    '(n=4: 24 in thorough, 3 seeded in quick) is built node by node into '
    'one manager; the map table -> reference must be a function and '
    'injective, complement <-> negation, constants <-> +-1, and the manager '
    'ends with exactly 2^(2^n)/2 nodes. Every other route must return that '
    'same reference: disjunction of cubes, add_expr of a generated DNF, '
    'add_expr(to_expr(u)), every binary connective on all pairs (n=3), '
    'single-variable let-composition for all (f, x, g) (n=3), copy from a '
    'manager with another order, pickle round trip, and rebuilding after '
    'reorder() to another order. H: Hypothesis histories with collections, '
    'swaps, sifting, declarations and undeclarations interleaved; after '
    'every step the independent invariant check (reduced, ordered, unique, '
    'pred inverse of succ, pairwise distinct and non-complementary truth '
    'tables, regular references true at all-ones). Non-trivial: function '
    'depends on >=2 variables (E) / history contains a swap or collection '
    'after a construction (H); distinct = (route, order, function).')
ASSUMPTIONS = [
    'harness/inv.py re-derives the invariants from _succ/_pred/_ref and '
    'never calls assert_consistent',
    'n=4: add_expr and to_expr routes are sampled (2 000 functions per '
    'order), the node-by-node and cube routes are complete',
]

ALPHA = {
    'build': 10, 'repeat': 5, 'churn': 2, 'fork': 2, 'compare_all': 2, 'var': 2, 'cube': 2, 'apply': 6, 'ite': 2, 'quantify': 2,
    'let_const': 1, 'let_rename': 2, 'let_compose': 2, 'add_expr': 2,
    'to_expr': 2, 'drop': 5, 'gc': 4, 'gc_roots': 2, 'swap': 5, 'sift': 2,
    'reorder_to': 2, 'reorder_pairs': 1, 'declare': 2, 'add_var': 1,
    'undeclare': 3, 'find_or_add': 2, 'traverse': 1,
    # copies to and from a second manager are one more route by which
    # functions enter a manager
    'xcopy': 3, 'peer': 2, 'file_roundtrip': 1, 'views': 1,
}


def nontrivial_hist(w):
    return bool(w.nontrivial & {'swap', 'sift', 'reorder_to', 'pairs'}) or \
        w.labels.get('gc.freed', 0) > 0


def plan(tier, seed):
    specs = []
    # trigger-position sweeps of dynamic reordering (machinery of C09)
    for s_ in range(6 if tier == 'thorough' else 2):
        specs.append(dict(kind='schedule', seed=seed * 100 + 60 + s_,
                          only=None,
                          examples=300 if tier == 'thorough' else 120))
    for n in (0, 1, 2, 3):
        for order in fix.orders(n):
            specs.append(dict(kind='routes', n=n, order=order, seed=seed))
    k = 24 if tier == 'thorough' else 3
    for order in fix.pick_orders(4, k, seed):
        specs.append(dict(kind='routes4', order=order, seed=seed))
    cfgs = [dict(kind='bdd', nmax=4, init_vars=3),
            dict(kind='bdd', nmax=5, init_vars=3),
            dict(kind='bdd', nmax=3, init_vars=3),
            dict(kind='autoref', nmax=4, init_vars=3),
            dict(kind='bdd', nmax=5, order=['c', 'a', 'd', 'b'],
                 ctor='levels', ctor_seed=3),
            dict(kind='autoref', nmax=5, order=['d', 'b', 'a', 'c'],
                 ctor='copy_vars')]
    for s in range(12 if tier == 'thorough' else 6):
        specs.append(dict(kind='random', seed=seed * 1000 + s, cfgs=cfgs,
                          examples=1500 if tier == 'thorough' else 350,
                          min_len=8, max_len=40))
    return specs


def canon_table(b, nm, out, base):
    """Build all functions; check the table <-> reference bijection."""
    n = len(nm)
    F = tt.full(n)
    bd = Builder(b, nm)
    refs = [bd(t) for t in range(F + 1)]
    seen = {}
    for t, u in enumerate(refs):
        require(u not in seen, 'canon.two_tables_one_reference',
                dict(u=u, t=t, other=seen.get(u)))
        seen[u] = t
        require(refs[~t & F] == -u, 'canon.complement_not_negation',
                dict(t=t, u=u, v=refs[~t & F]))
    require(refs[F] == 1 and refs[0] == -1, 'canon.constants')
    require(len(b) == (F + 1) // 2, 'canon.node_count',
            dict(len=len(b), want=(F + 1) // 2))
    for u in set(abs(x) for x in refs):
        b.incref(u)
    den = Den(b, nm)
    for t, u in enumerate(refs):
        require(den(u) == t, 'canon.build_wrong', dict(t=t))
    return refs


def dnf(t, nm, order):
    n = len(nm)
    if t == 0:
        return 'FALSE'
    if t == tt.full(n):
        return 'TRUE'
    idx = {x: j for j, x in enumerate(nm)}
    terms = []
    for i in tt.models(t, n):
        terms.append('(' + ' /\\ '.join(
            x if (i >> idx[x]) & 1 else f'~ {x}' for x in order) + ')')
    return ' \\/ '.join(terms)


def route_cubes(b, t, nm):
    n = len(nm)
    u = -1
    for i in tt.models(t, n):
        c = b.cube({x: bool((i >> j) & 1) for j, x in enumerate(nm)})
        u = b.apply('or', u, c)
    return u


def run_routes(spec, out, sample4=None):
    n = len(spec['order'])
    nm = fix.names(n)
    order = spec['order']
    F = tt.full(n)
    base = dict(kind=spec['kind'], n=n, order=order, seed=spec['seed'])
    b = fix.new_bdd(order)
    state = {}
    if not out.guard(dict(base, route='node-by-node'),
                     lambda: state.setdefault(
                         'refs', canon_table(b, nm, out, base))):
        return
    refs = state['refs']
    nt_fn = sum(1 for t in range(F + 1) if len(tt.support(t, n)) >= 2)
    out.count(F + 1, nt_fn)

    def same(route, t, r):
        if r != refs[t]:
            out.fail('canon.route_gives_other_reference',
                     dict(base, route=route, t=t),
                     dict(got=r, want=refs[t]))

    full_tables = range(F + 1)
    r = random.Random(f'c02:{spec["seed"]}:{order}')
    some = full_tables if n <= 3 else sorted(r.sample(range(F + 1), 2000))
    # cubes
    for t in full_tables:
        out.guard(dict(base, route='cubes', t=t),
                  lambda: same('cubes', t, route_cubes(b, t, nm)))
        if t % 1024 == 1023:
            b.collect_garbage()
    out.count(F + 1, nt_fn)
    # parser routes
    for t in some:
        out.guard(dict(base, route='add_expr', t=t),
                  lambda: same('add_expr', t, b.add_expr(dnf(t, nm, order))))
        out.guard(dict(base, route='to_expr', t=t),
                  lambda: same('to_expr', t,
                               b.add_expr(b.to_expr(refs[t]))))
    nts = sum(1 for t in some if len(tt.support(t, n)) >= 2)
    out.count(2 * len(some), 2 * nts)
    if n == 3:
        for op in ('and', 'or', 'xor', '=>', '<=>', 'diff'):
            fn = tt.BINARY[op]
            for tu in range(256):
                for tv in range(256):
                    rr = b.apply(op, refs[tu], refs[tv])
                    if rr != refs[fn(tu, tv, n)]:
                        out.fail('canon.route_gives_other_reference',
                                 dict(base, route='apply', op=op, u=tu, v=tv))
            b.collect_garbage()
            out.count(65536, 254 * 252)
        for x in nm:
            j = nm.index(x)
            for tf in range(256):
                for tg in range(256):
                    rr = b.let({x: refs[tg]}, refs[tf])
                    want = tt.compose(tf, n, {j: tg})
                    if rr != refs[want]:
                        out.fail('canon.route_gives_other_reference',
                                 dict(base, route='let', x=x, f=tf, g=tg))
            b.collect_garbage()
        out.count(3 * 65536, 3 * 254 * 254)
    if n >= 1:
        # copy from a manager with another order; pickle round trip
        other = list(reversed(order))
        src = fix.new_bdd(other)
        sbd = Builder(src, nm)
        import dd.bdd as _bdd
        for t in some:
            out.guard(dict(base, route='copy', t=t),
                      lambda: same('copy', t, _bdd.copy_bdd(sbd(t), src, b)))
        out.count(len(some), nts)
        fname = os.path.join(os.getcwd(), f'c02_{n}.p')
        # constants as roots belong to C12's domain
        ts = [t for t in some if t not in (0, F)][:512]
        if not ts:
            ts = []
        if ts:
            b.dump(fname, roots=[refs[t] for t in ts])
            back = b.load(fname)
            for t, rr in zip(ts, back):
                same('pickle', t, rr)
            os.remove(fname)
        out.count(len(ts), sum(1 for t in ts if len(tt.support(t, n)) >= 2))
    if n >= 2:
        # reorder in place, rebuild: same references
        import dd.bdd as _bdd
        target = order[1:] + order[:1]
        _bdd.reorder(b, {x: l for l, x in enumerate(target)})
        bd2 = Builder(b, nm)
        for t in full_tables:
            out.guard(dict(base, route='rebuild-after-reorder', t=t),
                      lambda: same('rebuild-after-reorder', t, bd2(t)))
        out.count(F + 1, nt_fn)
        out.guard(dict(base, route='invariants-after-reorder'),
                  lambda: inv.check_manager(
                      b, None, nm, cache=True, semantic=(n <= 3)))
    out.guard(dict(base, route='invariants'),
              lambda: (inv.check_order(b), inv.check_structure(b)))
    out.sample(dict(base, route='cubes', t=F // 5))
    out.exhaustive = True


def run(spec, out):
    if spec['kind'] == 'schedule':
        from . import c09
        return c09.run_schedule(spec, out)
    if spec['kind'] in ('routes', 'routes4'):
        run_routes(spec, out)
    else:
        H.run_random(spec, out, ALPHA, nontrivial_hist)


def replay_into(case, out):
    if case.get('kind') == 'schedule':
        from . import c09
        return c09.replay_into(case, out)
    if case.get('kind') == 'history':
        return H.replay_into(case, out)
    spec = dict(kind=case['kind'], order=case['order'], seed=case['seed'])
    run_routes(spec, out)
