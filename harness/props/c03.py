"""C03 — quantification equals the disjunction/conjunction of cofactors."""
import itertools
import random

from .. import histprop as H
from .. import tt, fix
from ..denote import Den, Builder
from ..viol import Violation, require

ID = 'C03'
LEVEL = 'exploration'
RULE = (
    'Sandwich: in a manager with an unused variable at each of the 4 levels and all 256 functions of the other three held, every (function, subset, quantifier) is computed, then one perturbation is applied (undeclare the unused variable, declare a new one, swap the top / bottom levels, collect, rooted collect, reorder to the reverse order, sift) and everything is computed again. '
    'S: for the quantification entry points (quantify, exist/forall, apply with a cube and each quantifier alias) every position k of the dynamic-reordering trigger is enumerated as in C09. '
    'H: Hypothesis histories on used managers (collections, re-used node numbers, swaps; dynamic reordering off and on with a lowered threshold) in which quantify / exist / forall / apply-with-cube are interleaved. '
    'E: every function of n<=3 variables x every subset of declared '
    'variables x {exists, forall} x API form (quantify with set, exist/'
    'forall with list, tuple, generator; apply with the 4 quantifier aliases '
    'and a first operand that is a cube or an arbitrary function with that '
    'support; dd.autoref quantify/exist/forall and Function.exist/forall) x '
    'all orders, fresh and used managers; n=4: every function x 16 subsets '
    'x 2 quantifiers under seeded orders (2 quick / 6 thorough). '
    'R: Hypothesis tables for n=5..7. Oracle: or/and of cofactors on truth '
    'tables; same reference when no quantified variable is in the support. '
    'Non-trivial: some quantified variable in the support and result not '
    'constant; distinct = (form, order, variant, function, subset, kind).')
ASSUMPTIONS = [
    'truth-table exists/forall in harness/tt.py (cross-checked at start-up)',
    'n=4 sweep uses the quantify() form only; the other forms are complete '
    'for n<=3',
]


def subsets(n):
    return [[j for j in range(n) if (m >> j) & 1] for m in range(1 << n)]


HIST_ALPHA = {'build': 8, 'repeat': 6, 'churn': 1, 'apply': 3, 'quantify': 16, 'drop': 6, 'gc': 5, 'swap': 3, 'sift': 1, 'reorder_to': 1, 'cube': 2, 'declare': 1, 'undeclare': 4, 'add_var': 1, 'let_rename': 1, 'gc_roots': 1}


def _hist_nontrivial(w):
    return w.labels.get('gc.number_reused', 0) > 0 or bool(w.nontrivial & {'swap', 'sift', 'reorder_to', 'dynreorder'})


def _hist_plan(tier, seed):
    cfgs = [dict(kind='bdd', nmax=4, init_vars=3), dict(kind='autoref', nmax=5, init_vars=4), dict(kind='autoref', nmax=5, init_vars=4, reordering=True, reorder_starts=4), dict(kind='bdd', nmax=5, init_vars=4, reordering=True, reorder_starts=2), dict(kind='bdd', nmax=10, init_vars=9, semantic=False), dict(kind='bdd', nmax=12, init_vars=11, semantic=False), dict(kind='autoref', nmax=10, init_vars=10, semantic=False)]
    return [dict(kind='history', seed=seed * 1000 + 500 + s, cfgs=cfgs,
                 examples=1200 if tier == 'thorough' else 300,
                 min_len=10, max_len=45)
            for s in range(8 if tier == 'thorough' else 4)]


def plan(tier, seed):
    specs = []
    specs += _hist_plan(tier, seed)
    # sweep, perturb (undeclare / declare / swap / collect / reorder),
    # sweep again: results remembered across calls must not survive a
    # change of levels or node numbers
    for pi, pert in enumerate(fix.PERTURBATIONS):
        for pos in range(4):
            if tier == 'quick' and (pi + pos + seed) % 2:
                continue
            specs.append(dict(kind='sandwich', perturbation=pert, pos=pos,
                              order=fix.orders(3)[(pi + pos) % 6],
                              seed=seed))
    # schedule enumeration of the reordering trigger (machinery of C09)
    # restricted to the quantification entry points
    for s in range(6 if tier == 'thorough' else 3):
        specs.append(dict(kind='schedule', seed=seed * 100 + 70 + s,
                          only=['quantify', 'exist_forall', 'apply_quant'],
                          examples=240 if tier == 'thorough' else 36))
    for n in (1, 2, 3):
        for order in fix.orders(n):
            for variant in ('fresh', 'used'):
                specs.append(dict(kind='forms', n=n, order=order,
                                  variant=variant, seed=seed))
    k = 6 if tier == 'thorough' else 2
    parts = 8
    for order in fix.pick_orders(4, k, seed):
        for p in range(parts):
            specs.append(dict(kind='n4', order=order, part=p, parts=parts,
                              variant='used' if p % 2 else 'fresh',
                              seed=seed))
    for s in range(8 if tier == 'thorough' else 3):
        specs.append(dict(kind='random', seed=seed * 100 + s,
                          examples=600 if tier == 'thorough' else 150))
    return specs


def _manager(spec, nm):
    if spec['variant'] == 'used':
        b = fix.used_bdd(spec['order'], nm, spec['seed'])
    else:
        b = fix.new_bdd(spec['order'])
    refs = fix.build_all(b, nm)
    return b, refs


def _check(r, u, t, js, forall, n, den, nm, canon=None):
    want = tt.forall(t, n, js) if forall else tt.exists(t, n, js)
    got = den(r)
    require(got == want, 'quantify.wrong_result',
            dict(got=got, want=want))
    sup = tt.support(t, n)
    if not (sup & set(js)):
        require(r == u, 'quantify.not_identity_outside_support',
                dict(r=r, u=u))
    if canon is not None:
        require(r == canon[want], 'result.not_canonical',
                dict(r=r, want=canon[want]))
    return bool(sup & set(js)) and want not in (0, tt.full(n))


def forms_dd_bdd(b, refs, nm):
    """name -> callable(u_table, js, forall) -> ref."""
    n = len(nm)

    def names_of(js):
        return [nm[j] for j in js]

    def cube_ref(js):
        return b.cube({nm[j]: True for j in js})

    def fn_with_support(js, k):
        # a function whose support is exactly js: parity or conjunction
        t = tt.full(n) if k else 0
        for j in js:
            t = (t & tt.var(n, j)) if k else (t ^ tt.var(n, j))
        if not js:
            t = tt.full(n) if k else 0
        return refs[t]

    return {
        'quantify(set)': lambda t, js, fa: b.quantify(
            refs[t], set(names_of(js)), forall=fa),
        'exist/forall(list)': lambda t, js, fa: (
            b.forall(names_of(js), refs[t]) if fa
            else b.exist(names_of(js), refs[t])),
        'exist/forall(tuple)': lambda t, js, fa: (
            b.forall(tuple(names_of(js)), refs[t]) if fa
            else b.exist(tuple(names_of(js)), refs[t])),
        'exist/forall(generator)': lambda t, js, fa: (
            b.forall((x for x in names_of(js)), refs[t]) if fa
            else b.exist((x for x in names_of(js)), refs[t])),
        # variables given as levels (documented for the dd.bdd manager)
        'quantify(levels)': lambda t, js, fa: b.quantify(
            refs[t], {b.level_of_var(nm[j]) for j in js}, forall=fa),
        'apply(tla, cube)': lambda t, js, fa: b.apply(
            '\\A' if fa else '\\E', cube_ref(js), refs[t]),
        'apply(word, cube)': lambda t, js, fa: b.apply(
            'forall' if fa else 'exists', cube_ref(js), refs[t]),
        'apply(tla, parity)': lambda t, js, fa: b.apply(
            '\\A' if fa else '\\E', fn_with_support(js, 0), refs[t]),
        'apply(word, conj)': lambda t, js, fa: b.apply(
            'forall' if fa else 'exists', fn_with_support(js, 1), refs[t]),
    }


def run_forms(spec, out):
    n = spec['n']
    nm = fix.names(n)
    b, refs = _manager(spec, nm)
    den = Den(b, nm)
    forms = forms_dd_bdd(b, refs, nm)
    base = {k: spec[k] for k in ('kind', 'n', 'order', 'variant', 'seed')}
    F = tt.full(n)
    for fname, fn in forms.items():
        nt = 0
        for t in range(F + 1):
            for js in subsets(n):
                for fa in (False, True):
                    case = dict(base, form=fname, t=t, js=js, forall=fa)

                    def body():
                        nonlocal nt
                        r = fn(t, js, fa)
                        if _check(r, refs[t], t, js, fa, n, den, nm, refs):
                            nt += 1
                    out.guard(case, body)
        out.count((F + 1) * (1 << n) * 2, nt)
        b.collect_garbage()
        from .. import inv
        out.guard(dict(base, form=fname, step='structure'),
                  lambda: inv.check_structure(b))
        den = Den(b, nm)
        for t, u in enumerate(refs):
            if den(u) != t:
                out.fail('operand_changed', dict(base, form=fname, t=t))
    # autoref forms on a separate manager with the same order
    import dd.autoref as _ar
    bdd = _ar.BDD()
    bdd.declare(*spec['order'])
    bd = Builder(bdd._bdd, nm)
    funcs = [_ar.Function(bd(t), bdd) for t in range(F + 1)]
    den2 = Den(bdd._bdd, nm)
    aforms = {
        'autoref.quantify': lambda f, vs, fa: bdd.quantify(f, set(vs), fa),
        'autoref.exist/forall': lambda f, vs, fa: (
            bdd.forall(vs, f) if fa else bdd.exist(vs, f)),
        'Function.exist/forall': lambda f, vs, fa: (
            f.forall(*vs) if fa else f.exist(*vs)),
        'autoref.quantify(generator)': lambda f, vs, fa: bdd.quantify(
            f, (x for x in vs), fa),
        'autoref.exist/forall(iter)': lambda f, vs, fa: (
            bdd.forall(iter(vs), f) if fa else bdd.exist(iter(vs), f)),
        'autoref.exist/forall(map)': lambda f, vs, fa: (
            bdd.forall(map(str, vs), f) if fa
            else bdd.exist(map(str, vs), f)),
    }
    for fname, fn in aforms.items():
        nt = 0
        for t in range(F + 1):
            for js in subsets(n):
                for fa in (False, True):
                    case = dict(base, form=fname, t=t, js=js, forall=fa)

                    def body():
                        nonlocal nt
                        r = fn(funcs[t], [nm[j] for j in js], fa)
                        if _check(r.node, funcs[t].node, t, js, fa, n,
                                  den2, nm):
                            nt += 1
                    out.guard(case, body)
        out.count((F + 1) * (1 << n) * 2, nt)
    out.sample(dict(base, form='quantify(set)', t=F // 3, js=[0],
                    forall=False, result=tt.exists(F // 3, n, [0])))
    out.exhaustive = True
    for f in funcs:
        f.node = None


def run_n4(spec, out):
    n = 4
    nm = fix.names(n)
    b, refs = _manager(spec, nm)
    den = Den(b, nm)
    base = {k: spec[k] for k in ('kind', 'order', 'variant', 'seed')}
    F = tt.full(n)
    subs = subsets(n)
    nsets = [set(nm[j] for j in js) for js in subs]
    nt = 0
    cnt = 0
    for t in range(spec['part'], F + 1, spec['parts']):
        u = refs[t]
        sup = tt.support(t, n)
        for js, ns in zip(subs, nsets):
            for fa in (False, True):
                try:
                    r = b.quantify(u, ns, forall=fa)
                    want = (tt.forall(t, n, js) if fa
                            else tt.exists(t, n, js))
                    if den(r) != want or r != refs[want] or (
                            not (sup & set(js)) and r != u):
                        out.fail('quantify.wrong_result',
                                 dict(base, kind='n4case', t=t, js=js,
                                      forall=fa),
                                 dict(got=den(r), want=want))
                    elif (sup & set(js)) and want not in (0, F):
                        nt += 1
                except Exception as e:
                    out.guard(dict(base, kind='n4case', t=t, js=js,
                                   forall=fa), _reraise, e)
                cnt += 1
        if t % 512 < spec['parts']:
            b.collect_garbage()
    out.count(cnt, nt)
    from .. import inv
    out.guard(dict(base, step='structure'), lambda: inv.check_structure(b))
    den = Den(b, nm)
    bad = [t for t, u in enumerate(refs) if den(u) != t]
    if bad:
        out.fail('operand_changed', dict(base, t=bad[0]))
    out.sample(dict(base, t=spec['part'] + 4096, js=[1, 3], forall=True))
    out.exhaustive = True


def _reraise(e):
    raise e


def check_random_case(case):
    n = case['n']
    nm = fix.names(n)
    b = fix.new_bdd(case['order'])
    bd = Builder(b, nm)
    t = case['t']
    u = bd(t)
    b.incref(u)
    if case['pre']:
        # used manager: other functions, a collection, a swap
        v = bd(case['pre'])
        b.apply('or', u, v)
        b.collect_garbage()
        b.swap(0, 1)
    den = Den(b, nm)
    js = case['js']
    r = b.quantify(u, {nm[j] for j in js}, forall=case['forall'])
    nt = _check(r, u, t, js, case['forall'], n, den, nm)
    require(Den(b, nm)(u) == t, 'operand_changed')
    return nt


def run_random(spec, out):
    import hypothesis
    from hypothesis import given, settings, strategies as st, HealthCheck

    @st.composite
    def cases(draw):
        n = draw(st.integers(5, 7))
        F = tt.full(n)
        order = draw(st.permutations(list(fix.names(n))))
        t = draw(st.integers(0, F))
        if draw(st.booleans()):
            # restrict to few variables so that levels are skipped
            keep = draw(st.lists(st.integers(0, n - 1), max_size=3))
            t = tt.exists(t, n, [j for j in range(n) if j not in keep])
        js = draw(st.lists(st.integers(0, n - 1), unique=True))
        return dict(kind='random', n=n, order=list(order), t=t, js=js,
                    forall=draw(st.booleans()),
                    pre=draw(st.one_of(st.just(0), st.integers(1, F - 1))))

    @hypothesis.seed(spec['seed'])
    @settings(max_examples=spec['examples'], deadline=None, database=None,
              suppress_health_check=list(HealthCheck),
              phases=[hypothesis.Phase.generate])
    @given(cases())
    def test(case):
        def body():
            out.case(check_random_case(case), case)
            out.label(f'n={case["n"]}')
            out.sample(case)
        if not out.guard(case, body):
            out.case(False, case)
    test()


def replay_into(case, out):
    if case.get('kind') == 'sandwich':
        return run_sandwich({k: case[k] for k in (
            'kind', 'perturbation', 'pos', 'order', 'seed')}, out)
    if case.get('kind') == 'history':
        return H.replay_into(case, out)
    if case.get('kind') == 'schedule':
        from . import c09
        return c09.replay_into(case, out)
    kind = case['kind']
    if kind == 'random':
        out.guard(case, lambda: check_random_case(case))
    elif kind == 'n4case':
        def body():
            nm = fix.names(4)
            b, refs = _manager(case, nm)
            den = Den(b, nm)
            r = b.quantify(refs[case['t']], {nm[j] for j in case['js']},
                           forall=case['forall'])
            _check(r, refs[case['t']], case['t'], case['js'],
                   case['forall'], 4, den, nm)
        out.guard(case, body)
    else:
        spec = {k: case[k] for k in ('kind', 'n', 'order', 'variant', 'seed')}
        run_forms(spec, out)
    out.count(1, 0)


def run_sandwich(spec, out):
    n = 3
    nm = fix.names(n)
    b, refs = fix.sandwich_manager(spec['order'], nm, spec['pos'])
    base = {k: spec[k] for k in ('kind', 'perturbation', 'pos', 'order',
                                 'seed')}
    subs = subsets(n)
    cnt = nt = 0

    def sweep(phase):
        nonlocal cnt, nt
        den = Den(b, nm + ('zz', 'zz_new'))
        F4 = tt.full(5)
        for t in range(256):
            for js in subs:
                for fa in (False, True):
                    case = dict(base, phase=phase, t=t, js=js, forall=fa)

                    def body():
                        r = b.quantify(refs[t], {nm[j] for j in js},
                                       forall=fa)
                        want = (tt.forall if fa else tt.exists)(t, n, js)
                        got = den(r)
                        require(got == tt.widen(want, n, 5),
                                'quantify.wrong_after_perturbation',
                                dict(got=got, want=want))
                    out.guard(case, body)
                    cnt += 1
                    if js and t not in (0, 255):
                        nt += 1
    sweep('before')
    ok = out.guard(dict(base, phase='perturb'),
                   lambda: fix.perturb(b, spec['perturbation']))
    if ok:
        sweep('after')
        from .. import inv
        out.guard(dict(base, phase='structure'),
                  lambda: inv.check_structure(b))
    out.count(cnt, nt)
    out.sample(dict(base, t=0x6a, js=[1], forall=False))
    out.exhaustive = True


def run(spec, out):
    if spec['kind'] == 'sandwich':
        return run_sandwich(spec, out)
    if spec['kind'] == 'schedule':
        from . import c09
        return c09.run_schedule(spec, out)
    if spec['kind'] == 'history':
        return H.run_random(spec, out, HIST_ALPHA, _hist_nontrivial)
    dict(forms=run_forms, n4=run_n4, random=run_random)[spec['kind']](
        spec, out)
