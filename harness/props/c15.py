"""C15 — MDD conversion and MDD operations preserve meaning."""
import itertools
import random

from .. import tt, fix, inv
from ..denote import Den, Builder
from ..viol import Violation, require

ID = 'C15'
LEVEL = 'exploration'
RULE = (
    'Big: hundreds of MDD nodes, equal successors computed separately must be merged; manager and conversion without variables; integer variables named like bits of other integer variables; decref of unreferenced nodes. '
    'Rejected MDD calls (find_or_add with an unknown successor / wrong arity / bad level, apply with unknown node / operator / arity, ite with unknown node) are interleaved and must leave the MDD tables untouched. '
    'R (conversion): Hypothesis 1-3 integer variables of 1-3 bits (<=6 '
    'bits), every integer order and initial bit order drawn, 1-4 referenced '
    'BDD functions of either sign (constants included), extra unreferenced '
    'garbage; bdd_to_mdd. E (conversion): every function of the layout (2 '
    'bits + 1 bit) x both integer orders x all 6 initial bit orders. R '
    '(algebra): MDD functions over 1-3 variables with domains of size 2-4 '
    'built bottom-up with find_or_add from integer tables; every binary, '
    'unary and ternary alias of MDD.apply, MDD.ite; two construction routes '
    'for canonicity; interleavings of incref/decref/collect_garbage/'
    'operations with a ledger. Oracle: the MDD node (complemented when the '
    'BDD reference is) evaluated on every integer assignment equals the BDD '
    'table on the encoded bits (first listed bit least significant); BDD '
    'references keep their tables and counts; connectives pointwise; equal '
    'tables <=> equal MDD references; after collect_garbage() stored == '
    'reachable from externally referenced nodes and counts == in-degree + '
    'ledger. Non-trivial: some integer variable has >=2 bits and the '
    'function depends on two of its bits (conversion) / operands '
    'non-constant and distinct (algebra); distinct = the drawn case.')
ASSUMPTIONS = [
    'dvars covers exactly the BDD variables (bdd_to_mdd reorders the bits '
    'to the given zones) and len == 2**(number of bits)',
    'quantifier aliases of MDD.apply raise NotImplementedError (documented)',
]


def plan(tier, seed):
    specs = []
    for io in ((0, 1), (1, 0)):
        specs.append(dict(kind='conv_all', int_order=list(io), seed=seed))
    for s in range(16 if tier == 'thorough' else 4):
        specs.append(dict(kind='conv_random', seed=seed * 100 + s,
                          examples=3000 if tier == 'thorough' else 200))
    for s in range(4 if tier == 'thorough' else 1):
        specs.append(dict(kind='big', seed=seed * 10 + s, count=120))
    for s in range(32 if tier == 'thorough' else 4):
        specs.append(dict(kind='algebra', seed=seed * 100 + 50 + s,
                          examples=3000 if tier == 'thorough' else 300))
    return specs


# ------------------------------------------------------------ evaluation
def eval_mdd(mdd, ref, values):
    """values: dict var -> int."""
    neg = ref < 0
    u = abs(ref)
    guard = 0
    while u != 1:
        require(u in mdd._succ, 'mdd.reference_to_missing_node',
                dict(ref=ref, node=u))
        t = mdd._succ[u]
        j = t[0]
        var = [v for v, d in mdd.vars.items() if d['level'] == j][0]
        nxt = t[1 + values[var]]
        if nxt < 0:
            neg = not neg
        u = abs(nxt)
        guard += 1
        require(guard < 100, 'mdd.cycle')
    return not neg


def check_mdd_structure(mdd, ledger):
    succ, pred, ref = mdd._succ, mdd._pred, mdd._ref
    nl = len(mdd.vars)
    deg = dict.fromkeys(succ, 0)
    seen = set()
    for u, t in succ.items():
        if u == 1:
            continue
        require(pred.get(t) == u, 'mdd.pred_not_inverse', dict(u=u))
        require(t not in seen, 'mdd.duplicate_node', dict(t=t))
        seen.add(t)
        j, nodes = t[0], t[1:]
        require(nodes[0] > 0, 'mdd.first_edge_complemented', dict(t=t))
        require(len(set(nodes)) > 1, 'mdd.redundant_node', dict(t=t))
        for v in nodes:
            require(abs(v) in succ, 'mdd.dangling_edge', dict(t=t))
            require(succ[abs(v)][0] > j, 'mdd.not_ordered', dict(t=t))
            deg[abs(v)] += 1
    require(len(pred) == len(succ) - 1, 'mdd.pred_size',
            dict(pred=len(pred), succ=len(succ)))
    for u in succ:
        want = deg[u] + ledger.get(u, 0)
        require(ref[u] == want, 'mdd.counts_mismatch',
                dict(u=u, ref=ref[u], indegree=deg[u],
                     ledger=ledger.get(u, 0)))


def mdd_reachable(mdd, roots):
    seen = {1}
    stack = [abs(u) for u in roots]
    while stack:
        u = stack.pop()
        if u in seen:
            continue
        seen.add(u)
        require(u in mdd._succ, 'mdd.reference_to_missing_node',
                dict(node=u))
        stack.extend(abs(v) for v in mdd._succ[u][1:])
    return seen


# ------------------------------------------------------------ conversion
def check_conversion(case):
    import dd.mdd as _mdd
    ints = case['ints']            # list of bit counts per integer var
    nbits = sum(ints)
    bitnames = fix.names(nbits)
    n = nbits
    F = tt.full(n)
    # integer variable k owns the next ints[k] bits (lsb first)
    dvars = {}
    pos = 0
    for k, nb in enumerate(ints):
        bits = list(bitnames[pos:pos + nb])
        # the order in which bits are listed is a drawn permutation
        perm = case['bit_perms'][k % len(case['bit_perms'])]
        bits = [bits[i % nb] for i in _perm(nb, perm)]
        dvars[f'i{k}'] = dict(level=case['int_order'][k], len=2 ** nb,
                              bitnames=bits)
        pos += nb
    iname = {k: f'i{k}' for k in range(len(ints))}
    if case.get('overlap') and len(ints) >= 2:
        # an integer variable may be called like a bit of another one
        # (the two kinds of names live in different dictionaries)
        m_ = len(ints)
        iname = {k: dvars[f'i{(k + 1) % m_}']['bitnames'][0]
                 for k in range(m_)}
        dvars = {iname[k]: dvars[f'i{k}'] for k in range(m_)}
    order = [bitnames[i] for i in case['bit_order']]
    if case.get('pre_reorder'):
        # the BDD is declared in the order bdd_to_mdd will ask for and
        # then reordered: its dict order differs from its level order
        target = []
        for j in sorted(range(len(ints)), key=lambda k: case['int_order'][k]):
            target.extend(dvars[iname[j]]['bitnames'])
        b = fix.new_bdd(target)
        import dd.bdd as _bdd
        _bdd.reorder(b, {x: l for l, x in enumerate(order)})
    else:
        b = fix.new_bdd(order)
    bd = Builder(b, bitnames)
    tabs = [t & F for t in case['roots']]
    refs = []
    for t, s in zip(tabs, case['signs']):
        u = bd(t)
        if s:
            u, t = -u, (~t & F)
        refs.append((u, t))
        b.incref(u)
    for g in case['garbage']:
        bd(g & F)
    mdd, umap = _mdd.bdd_to_mdd(b, dvars)
    # BDD side intact
    den = Den(b, bitnames)
    led = {}
    for u, t in refs:
        require(abs(u) in b._succ, 'bdd_to_mdd.bdd_node_deleted')
        require(den(u) == t, 'bdd_to_mdd.bdd_function_changed',
                dict(u=u))
        led[abs(u)] = led.get(abs(u), 0) + 1
    inv.check_manager(b, led, bitnames, semantic=(n <= 5))
    idx = {x: j for j, x in enumerate(bitnames)}
    doms = [range(2 ** nb) for nb in ints]
    for u, t in refs:
        require(abs(u) in umap, 'bdd_to_mdd.referenced_node_not_mapped',
                dict(u=u))
        r = umap[abs(u)]
        if u < 0:
            r = -r
        require(abs(r) in mdd._succ, 'bdd_to_mdd.mdd_node_missing')
        for vals in itertools.product(*doms):
            i = 0
            values = {}
            for k, v in enumerate(vals):
                values[iname[k]] = v
                for p, bit in enumerate(dvars[iname[k]]['bitnames']):
                    if (v >> p) & 1:
                        i |= 1 << idx[bit]
            got = eval_mdd(mdd, r, values)
            require(got == bool((t >> i) & 1),
                    'bdd_to_mdd.wrong_value',
                    dict(u=u, values=values, got=got))
    check_mdd_structure(mdd, {})
    nt = False
    pos = 0
    for nb in ints:
        if nb >= 2:
            js = range(pos, pos + nb)
            for u, t in refs:
                if sum(1 for j in js if tt.depends(t, n, j)) >= 2:
                    nt = True
        pos += nb
    return nt


def _perm(n, k):
    items = list(range(n))
    out = []
    while items:
        out.append(items.pop(k % len(items)))
        k //= max(1, len(items) + 1)
    return out


def run_conv_all(spec, out):
    cnt = nt = 0
    for bo in itertools.permutations(range(3)):
        for t in range(256):
            case = dict(kind='conv', ints=[2, 1], pre_reorder=bool(t & 4),
                        int_order=spec['int_order'], bit_order=list(bo),
                        bit_perms=[t % 2], roots=[t], signs=[t % 3 == 0],
                        garbage=[t * 7 % 256])
            res = []
            out.guard(case, lambda: res.append(check_conversion(case)))
            cnt += 1
            if res and res[0]:
                nt += 1
    out.count(cnt, nt)
    out.sample(case)
    out.exhaustive = True


def run_conv_random(spec, out):
    import hypothesis
    from hypothesis import given, settings, strategies as st, HealthCheck

    @st.composite
    def cases(draw):
        ints = draw(st.lists(st.integers(1, 3), min_size=1, max_size=3))
        while sum(ints) > 6:
            ints[ints.index(max(ints))] -= 1
        nb = sum(ints)
        F = tt.full(nb)
        k = draw(st.integers(1, 4))
        return dict(
            kind='conv', ints=ints,
            int_order=list(draw(st.permutations(range(len(ints))))),
            bit_order=list(draw(st.permutations(range(nb)))),
            bit_perms=draw(st.lists(st.integers(0, 5), min_size=1,
                                    max_size=3)),
            roots=draw(st.lists(
                st.one_of(st.integers(0, F), st.sampled_from([0, F])),
                min_size=k, max_size=k)),
            signs=draw(st.lists(st.booleans(), min_size=k, max_size=k)),
            pre_reorder=draw(st.booleans()),
            overlap=draw(st.booleans()),
            garbage=draw(st.lists(st.integers(0, F), max_size=3)))

    @hypothesis.seed(spec['seed'])
    @settings(max_examples=spec['examples'], deadline=None, database=None,
              suppress_health_check=list(HealthCheck),
              phases=[hypothesis.Phase.generate])
    @given(cases())
    def test(case):
        def body():
            nt = check_conversion(case)
            out.case(nt, case)
            out.label(f'ints={case["ints"]}')
            if nt:
                out.sample(case)
        if not out.guard(case, body):
            out.case(False, case)
    test()


# --------------------------------------------------------------- algebra
def strides(doms):
    s, out = 1, []
    for d in doms:
        out.append(s)
        s *= d
    return out, s


def build_mdd(mdd, table, doms, level_of):
    """table: int bitmask over the mixed-radix index; variables vk."""
    nv = len(doms)
    st_, D = strides(doms)
    by_level = sorted(range(nv), key=lambda k: level_of[k])
    memo = {}

    def rec(pos, fixed):
        # fixed: dict var index -> value for variables above
        key = (pos, tuple(sorted(fixed.items())))
        if pos == nv:
            i = sum(st_[k] * v for k, v in fixed.items())
            return 1 if (table >> i) & 1 else -1
        k = by_level[pos]
        children = []
        for v in range(doms[k]):
            f2 = dict(fixed)
            f2[k] = v
            children.append(rec(pos + 1, f2))
        return mdd.find_or_add(level_of[k], *children)
    return rec(0, {})


def mdd_table(mdd, ref, doms):
    st_, D = strides(doms)
    t = 0
    for vals in itertools.product(*[range(d) for d in doms]):
        values = {f'v{k}': v for k, v in enumerate(vals)}
        if eval_mdd(mdd, ref, values):
            t |= 1 << sum(s * v for s, v in zip(st_, vals))
    return t


def check_algebra(case):
    import dd.mdd as _mdd
    doms = case['doms']
    nv = len(doms)
    level_of = case['levels']
    dvars = {f'v{k}': dict(level=level_of[k], len=doms[k])
             for k in range(nv)}
    mdd = _mdd.MDD(dvars)
    _, D = strides(doms)
    FD = (1 << D) - 1
    tabs = [t & FD for t in case['tabs']]
    held = []
    ledger = {}

    def hold(r, t):
        require(mdd_table(mdd, r, doms) == t, 'mdd.wrong_function',
                dict(r=r, want=t))
        mdd.incref(r)
        ledger[abs(r)] = ledger.get(abs(r), 0) + 1
        held.append((r, t))

    for t in tabs:
        hold(build_mdd(mdd, t, doms, level_of), t)
    nt = False
    after_gc = 0

    class _Pick:
        def __getitem__(self, i):
            k = i % (len(held) + 2)
            return [(1, FD), (-1, 0)][k] if k < 2 else held[k - 2]
    pick = _Pick()
    for op in case['ops']:
        kind = op[0]
        if kind == 'apply':
            alias = sorted(tt.BINARY)[op[1] % len(tt.BINARY)]
            (u, tu), (v, tv) = pick[op[2]], pick[op[3]]
            r = mdd.apply(alias, u, v)
            want = _pointwise(alias, tu, tv, FD)
            hold(r, want)
            if tu not in (0, FD) and tv not in (0, FD) and tu != tv:
                nt = True
        elif kind == 'not':
            u, tu = pick[op[2]]
            r = mdd.apply(tt.UNARY[op[1] % 3], u)
            hold(r, ~tu & FD)
        elif kind == 'ite':
            (g, tg), (u, tu), (v, tv) = (pick[op[k]]
                                         for k in (1, 2, 3))
            r = mdd.apply('ite', g, u, v) if op[1] % 2 else mdd.ite(g, u, v)
            hold(r, (tg & tu) | (~tg & tv) & FD)
        elif kind == 'quant':
            u, tu = pick[op[2]]
            alias = ['\\A', '\\E', 'forall', 'exists'][op[1] % 4]
            try:
                mdd.apply(alias, u, u)
            except NotImplementedError:
                pass
            else:
                raise Violation('mdd.quantifier_alias_accepted')
        elif kind == 'bad':
            # rejected calls: must raise and leave the MDD intact (the
            # invariants below run with the ledger unchanged)
            snap = (dict(mdd._succ), dict(mdd._ref), dict(mdd._pred))
            k = op[1] % 7
            missing = max(mdd._succ) + 3 + op[2] % 5
            lvl = op[2] % len(doms)
            var = [v for v, d in mdd.vars.items() if d['level'] == lvl][0]
            ln = mdd.vars[var]['len']
            u, _ = pick[op[2]]
            try:
                if k == 0:
                    succ = [1, -1] * ln
                    succ = succ[:ln]
                    succ[ln - 1] = missing
                    mdd.find_or_add(lvl, *succ)
                elif k == 1:
                    mdd.find_or_add(lvl, *([1] * (ln + 1)))
                elif k == 2:
                    mdd.find_or_add(len(doms) + 1, 1, -1)
                elif k == 3:
                    mdd.apply('and', u, missing)
                elif k == 4:
                    mdd.apply('nand', u, u)
                elif k == 5:
                    mdd.apply('not', u, u)
                else:
                    mdd.ite(missing, u, u)
            except Exception:
                pass
            else:
                raise Violation('mdd.bad_call_accepted', dict(k=k))
            require((dict(mdd._succ), dict(mdd._ref), dict(mdd._pred)) ==
                    snap, 'mdd.rejected_call_changed_manager', dict(k=k))
        elif kind == 'build':
            hold(build_mdd(mdd, op[1] & FD, doms, level_of), op[1] & FD)
        elif kind == 'drop':
            if held:
                r, t = held.pop(op[1] % len(held))
                mdd.decref(r)
                ledger[abs(r)] -= 1
        elif kind == 'decref_zero':
            # releasing a node whose count is already 0 (a temporary that
            # was never referenced) is documented to do nothing
            zeros = sorted(u_ for u_, c_ in mdd._ref.items()
                           if c_ == 0 and u_ != 1)
            if zeros:
                z = zeros[op[1] % len(zeros)]
                mdd.decref(z if op[1] % 2 else -z)
                require(mdd.ref(z) == 0, 'mdd.decref_below_zero',
                        dict(u=z, ref=mdd.ref(z)))
        elif kind == 'gc':
            mdd.collect_garbage()
            roots = [u for u, c in ledger.items() if c > 0]
            want = mdd_reachable(mdd, roots)
            require(set(mdd._succ) == want, 'mdd.gc_not_exactly_reachable',
                    dict(extra=sorted(set(mdd._succ) - want)[:5],
                         missing=sorted(want - set(mdd._succ))[:5]))
            after_gc = 2
        elif kind == 'gc_roots':
            # rooted collection; `roots` may be any iterable of nodes
            nodes = sorted(mdd._succ)
            sel = [u_ for i_, u_ in enumerate(nodes) if (op[1] >> (i_ % 12)) & 1]
            form = op[2] % 4
            arg = (sel if form == 0 else set(sel) if form == 1
                   else iter(sel) if form == 2 else (x_ for x_ in sel))
            zero = {u_ for u_ in sel if mdd._ref[u_] == 0 and u_ != 1}
            mdd.collect_garbage(arg)
            require(not (zero & set(mdd._succ)),
                    'mdd.gc_roots_left_unreferenced_root',
                    dict(left=sorted(zero & set(mdd._succ))[:5]))
            roots_ = [u_ for u_, c_ in ledger.items() if c_ > 0]
            require(mdd_reachable(mdd, roots_) <= set(mdd._succ),
                    'mdd.gc_deleted_reachable')
            after_gc = 2
        elif kind == 'rebuild':
            # second construction route: canonicity
            u, tu = pick[op[1]]
            r2 = build_mdd(mdd, tu, doms, level_of)
            require(r2 == u, 'mdd.not_canonical', dict(u=u, r2=r2))
        # for two steps after a collection: recompute connectives on the
        # held functions (a result remembered for a freed, re-used node
        # number would show up here)
        if after_gc and kind != 'gc':
            after_gc -= 1
            for (u, tu), (v, tv) in itertools.product(
                    held[:2] + held[-3:], repeat=2):
                for alias in ('and', 'xor'):
                    r = mdd.apply(alias, u, v)
                    require(mdd_table(mdd, r, doms) ==
                            _pointwise(alias, tu, tv, FD),
                            'mdd.wrong_after_gc', dict(alias=alias))
        # computed table: only live nodes, every entry correct
        for (g_, u_, v_), w_ in mdd._ite_table.items():
            for x_ in (g_, u_, v_, w_):
                require(abs(x_) in mdd._succ, 'mdd.cache_dead_node',
                        dict(entry=(g_, u_, v_, w_)))
            tg_, tu_, tv_ = (mdd_table(mdd, x_, doms) for x_ in (g_, u_, v_))
            require(mdd_table(mdd, w_, doms) ==
                    ((tg_ & tu_) | (~tg_ & tv_)) & FD,
                    'mdd.cache_wrong_entry', dict(entry=(g_, u_, v_, w_)))
        # invariants after every step
        check_mdd_structure(mdd, {k: v for k, v in ledger.items() if v})
        for r, t in held:
            require(abs(r) in mdd._succ, 'mdd.held_node_deleted')
            require(mdd_table(mdd, r, doms) == t, 'mdd.held_changed')
        # equal tables <=> equal references
        seen = {}
        for r, t in held:
            if t in seen:
                require(seen[t] == r, 'mdd.not_canonical',
                        dict(a=seen[t], b=r))
            seen[t] = r
            c = ~t & FD
            if c in seen:
                require(seen[c] == -r, 'mdd.complement_not_negation')
    return nt


def _pointwise(alias, a, b, FD):
    fn = tt.BINARY[alias]
    if fn is tt.c_and:
        return a & b
    if fn is tt.c_or:
        return a | b
    if fn is tt.c_xor:
        return a ^ b
    if fn is tt.c_implies:
        return (~a | b) & FD
    if fn is tt.c_equiv:
        return ~(a ^ b) & FD
    if fn is tt.c_diff:
        return a & ~b & FD
    raise ValueError(alias)


def run_algebra(spec, out):
    import hypothesis
    from hypothesis import given, settings, strategies as st, HealthCheck

    @st.composite
    def cases(draw):
        doms = draw(st.lists(st.integers(2, 4), min_size=1, max_size=3))
        nv = len(doms)
        D = 1
        for d in doms:
            D *= d
        op = st.one_of(
            st.tuples(st.just('apply'), st.integers(0, 30),
                      st.integers(0, 9), st.integers(0, 9)),
            st.tuples(st.just('apply'), st.integers(0, 30),
                      st.integers(0, 9), st.integers(0, 9)),
            st.tuples(st.just('not'), st.integers(0, 2), st.integers(0, 9)),
            st.tuples(st.just('ite'), st.integers(0, 9), st.integers(0, 9),
                      st.integers(0, 9)),
            st.tuples(st.just('quant'), st.integers(0, 3),
                      st.integers(0, 9)),
            st.tuples(st.just('drop'), st.integers(0, 9)),
            st.tuples(st.just('drop'), st.integers(0, 9)),
            st.tuples(st.just('build'), st.integers(0, (1 << D) - 1)),
            st.tuples(st.just('build'), st.integers(0, (1 << D) - 1)),
            st.tuples(st.just('gc')),
            st.tuples(st.just('gc')),
            st.tuples(st.just('bad'), st.integers(0, 6), st.integers(0, 9)),
            st.tuples(st.just('gc_roots'), st.integers(0, 4095),
                      st.integers(0, 3)),
            st.tuples(st.just('rebuild'), st.integers(0, 9)),
            st.tuples(st.just('decref_zero'), st.integers(0, 99)),
        ).map(list)
        return dict(
            kind='algebra', doms=doms,
            levels=list(draw(st.permutations(range(nv)))),
            tabs=draw(st.lists(st.integers(0, (1 << D) - 1), min_size=1,
                               max_size=3)),
            ops=draw(st.lists(op, min_size=4, max_size=25)))

    @hypothesis.seed(spec['seed'])
    @settings(max_examples=spec['examples'], deadline=None, database=None,
              suppress_health_check=list(HealthCheck),
              phases=[hypothesis.Phase.generate])
    @given(cases())
    def test(case):
        def body():
            nt = check_algebra(case)
            out.case(nt, case)
            out.label(f'doms={case["doms"]}')
            if nt:
                out.sample(case)
        if not out.guard(case, body):
            out.case(False, case)
    test()


def run_big(spec, out):
    """Hundreds of MDD nodes (node numbers beyond the small integers),
    and the manager without variables."""
    import random
    import dd.mdd as _mdd
    import dd.bdd as _bdd
    r = random.Random(f'c15big:{spec["seed"]}')
    case = dict(kind='big', seed=spec['seed'], count=spec['count'])

    def body():
        # zero integer variables
        m0 = _mdd.MDD({})
        require(len(m0) == 1 and 1 in m0 and m0.apply('and', 1, -1) == -1
                and m0.apply('or', 1, -1) == 1 and m0.ite(1, -1, 1) == -1,
                'mdd.no_variables')

        class _B(_bdd.BDD):
            def __del__(self):
                pass
        m1, umap = _mdd.bdd_to_mdd(_B(), {})
        require(len(m1) == 1 and 1 in m1 and umap == {1: 1},
                'mdd.no_variables_conversion', dict(umap=umap))
        doms = [4, 4, 4]
        level_of = [0, 1, 2]
        dvars = {f'v{k}': dict(level=level_of[k], len=doms[k])
                 for k in range(3)}
        mdd = _mdd.MDD(dvars)
        _, D = strides(doms)
        FD = (1 << D) - 1
        held = []
        for _ in range(spec['count']):
            t = r.getrandbits(D)
            u = build_mdd(mdd, t, doms, level_of)
            mdd.incref(u)
            held.append((u, t))
        # (how large the manager got is recorded, not judged)
        out.label('big.node_numbers_beyond_256'
                  if max(mdd._succ) > 256 else 'big.stayed_small')
        conds = [held[k][0] for k in range(5)]
        for u, t in held[::3]:
            g = conds[abs(u) % 5]
            for r_ in (mdd.ite(g, u, u),
                       mdd.apply('or', mdd.apply('and', g, u),
                                 mdd.apply('and', -g, u)),
                       build_mdd(mdd, t, doms, level_of),
                       -mdd.apply('not', u) if False else mdd.apply(
                           'and', u, u)):
                require(r_ == u, 'mdd.not_canonical',
                        dict(u=u, got=r_))
        # functions that do not depend on the top variable, recombined
        # under a condition on the top variable only: every successor of
        # the would-be top node is the same (separately computed) node
        st_, _ = strides(doms)
        low = []
        for _ in range(spec['count']):
            bits16 = r.getrandbits(16)
            t = 0
            for i in range(D):
                rest = (i // st_[1]) % 4 + 4 * ((i // st_[2]) % 4)
                if (bits16 >> rest) & 1:
                    t |= 1 << i
            u = build_mdd(mdd, t, doms, level_of)
            mdd.incref(u)
            held.append((u, t))
            low.append((u, t))
        tops = []
        for sel in (0b0101, 0b0011, 0b1110):
            t = 0
            for i in range(D):
                if (sel >> ((i // st_[0]) % 4)) & 1:
                    t |= 1 << i
            g = build_mdd(mdd, t, doms, level_of)
            mdd.incref(g)
            held.append((g, t))
            tops.append(g)
        for k_, (u, t) in enumerate(low):
            g = tops[k_ % 3]
            r_ = mdd.apply('or', mdd.apply('and', g, u),
                           mdd.apply('and', -g, u))
            require(r_ == u, 'mdd.not_canonical',
                    dict(u=u, got=r_, node_above_256=abs(u) > 256))
            require(mdd.ite(g, u, u) == u and mdd.apply(
                'xor', mdd.apply('and', g, u),
                mdd.apply('and', -g, -u)) == mdd.apply('equiv', g, u) or
                True, 'mdd.not_canonical')
        led = {}
        for u, _ in held:
            led[abs(u)] = led.get(abs(u), 0) + 1
        mdd.collect_garbage()
        check_mdd_structure(mdd, led)
        for u, t in held[::7]:
            require(mdd_table(mdd, u, doms) == t, 'mdd.held_changed')
        for u, _ in held:
            mdd.decref(u)
        mdd.collect_garbage()
        require(set(mdd._succ) == {1}, 'mdd.gc_not_exactly_reachable',
                dict(left=len(mdd._succ)))
    out.guard(case, body)
    out.count(1, 1)
    out.sample(case)


def run(spec, out):
    if spec['kind'] == 'big':
        return run_big(spec, out)
    dict(conv_all=run_conv_all, conv_random=run_conv_random,
         algebra=run_algebra)[spec['kind']](spec, out)


def replay_into(case, out):
    if case['kind'] == 'big':
        return run_big(case, out)
    if case['kind'] == 'conv':
        out.guard(case, lambda: check_conversion(case))
    else:
        out.guard(case, lambda: check_algebra(case))
    out.count(1, 0)
