"""C09 — dynamic reordering is invisible: same results wherever it
fires."""
import os
import random

from .. import tt, fix, inv
from .. import histprop as H
from ..denote import Den, Builder
from ..viol import Violation, require

ID = 'C09'
LEVEL = 'exploration'
RULE = (
    'S (schedule enumeration): for each generated call of an entry point '
    '(apply with every alias class, Function operators, ite, quantify / '
    'exist / forall, let in its three forms, cube, var, add_expr, copy into '
    'the manager via BDD.copy / autoref.copy_bdd / _copy.copy_bdd, pickle '
    'and JSON load, image, preimage, autoref find_or_add) on operands over '
    '4-6 variables: run once with reordering disabled and count the K '
    'node-creation requests; then for EVERY k in 1..K+1 rebuild the '
    'identical manager, enable reordering through configure(), install a '
    'harness _request_reordering that raises the internal signal exactly '
    'at the k-th request, and run the call (dd.autoref as is, dd.bdd with '
    'operands increfed). H (natural trigger): Hypothesis histories on '
    'dd.bdd and dd.autoref with configure(reordering=True) at lowered '
    'REORDER_STARTS (2/4/8) and at the default with 6 variables. Oracle: '
    'result table == table computed by the truth-table oracle (== the run '
    'with reordering disabled); operands and all other held references '
    'keep tables and integers; configure()[reordering] still True; the '
    'caller never sees _NeedsReordering (nor KeyError from a node collected '
    'mid-recursion); independent manager invariants with exact counts. '
    'Non-trivial: the trigger fired and sifting changed the order or '
    'collected nodes; distinct = (call, operands, k).')
ASSUMPTIONS = [
    'variables are passed by name (levels are meaningless to a caller '
    'while dynamic reordering is on)',
    'the harness trigger replaces the module global '
    'dd.bdd._request_reordering, which find_or_add looks up at call time; '
    'it honours the same disabled state (_last_len is None) as the original',
]

ENTRY = ['apply', 'funcop', 'ite', 'quantify', 'exist_forall', 'apply_quant',
         'let_const', 'let_compose', 'let_rename', 'cube', 'var',
         'add_expr', 'copy', 'ar_copy_bdd', '_copy_copy_bdd',
         'load_pickle', 'load_json', 'image', 'preimage', 'find_or_add']


def plan(tier, seed):
    specs = []
    for s in range(16 if tier == 'thorough' else 8):
        specs.append(dict(kind='schedule', seed=seed * 100 + s,
                          examples=400 if tier == 'thorough' else 60))
    on_bdd = [dict(kind='bdd', nmax=5, init_vars=4, reordering=True,
                   reorder_starts=s) for s in (2, 4, 8)]
    on_ar = [dict(kind='autoref', nmax=5, init_vars=4, reordering=True,
                  reorder_starts=s) for s in (2, 4, 8)]
    dflt = [dict(kind='autoref', nmax=6, init_vars=6, reordering=True,
                 semantic=False)]
    for s in range(12 if tier == 'thorough' else 6):
        cf = [on_bdd, on_ar, dflt][s % 3] if tier == 'thorough' \
            else [on_bdd, on_ar][s % 2]
        specs.append(dict(kind='random', seed=seed * 1000 + s, cfgs=cf,
                          examples=800 if tier == 'thorough' else 250,
                          min_len=10, max_len=45))
    return specs


ALPHA = {
    'build': 8, 'repeat': 5, 'var': 2, 'cube': 3, 'apply': 8, 'funcop': 4, 'not': 1,
    'ite': 4, 'quantify': 4, 'let_const': 2, 'let_rename': 3,
    'let_compose': 4, 'add_expr': 3, 'to_expr': 1, 'drop': 5, 'gc': 1,
    'sift': 1, 'reorder_to': 1, 'declare': 1, 'traverse': 1,
}


def nontrivial_hist(w):
    return 'dynreorder' in w.nontrivial


# ------------------------------------------------------ schedule sweeps
class Trigger:
    def __init__(self, k):
        self.k = k
        self.count = 0
        self.fired = False

    def __call__(self, bdd):
        if bdd._last_len is None:
            return
        self.count += 1
        if self.count == self.k:
            self.fired = True
            import dd.bdd as _bdd
            raise _bdd._NeedsReordering()


class Scenario:
    """One deterministic manager + operands + call."""

    def __init__(self, case, cwd):
        import dd.bdd as _bdd
        import dd.autoref as _ar
        self._bdd, self._ar = _bdd, _ar
        self.case = case
        self.cwd = cwd
        n = case['n']
        self.n = n
        self.nm = fix.names(n)
        self.F = tt.full(n)
        self.api = case['api']
        order = [self.nm[i] for i in case['order']]
        if case['entry'] == 'preimage':
            # documented precondition of preimage: each renamed variable
            # is adjacent to its partner (the pair is nm[0], nm[1])
            order.remove(self.nm[1])
            order.insert(order.index(self.nm[0]) + 1 - case['a2'] % 2,
                         self.nm[1])
        self.A = _ar.BDD()
        self.A.declare(*order)
        self.b = self.A._bdd
        bd = Builder(self.b, self.nm)
        self.tabs = [t & self.F for t in case['tabs']]
        self.ops = []
        for t in self.tabs:
            u = bd(t)
            if self.api == 'autoref':
                self.ops.append(_ar.Function(u, self.A))
            else:
                self.b.incref(u)
                self.ops.append(u)
        # some garbage for the collector
        for g in case['garbage']:
            bd(g & self.F)
        self.src = None
        self.files = []
        self._prepare_sources()

    def node(self, r):
        return r if isinstance(r, int) else r.node

    def _prepare_sources(self):
        """Other managers / files used by copy and load entry points are
        produced with reordering off, before the call under test."""
        _ar, _bdd = self._ar, self._bdd
        e = self.case['entry']
        if e in ('copy', 'ar_copy_bdd', '_copy_copy_bdd', 'load_pickle',
                 'load_json'):
            S = _ar.BDD()
            so = [self.nm[i] for i in self.case['order2']]
            S.declare(*so)
            sbd = Builder(S._bdd, self.nm)
            self.src = S
            self.sf = [_ar.Function(sbd(t), S) for t in self.tabs[:2]]
            if e == 'load_pickle':
                p = os.path.join(self.cwd, 'c09.p')
                S.dump(p, roots=self.sf)
                self.files.append(p)
            if e == 'load_json':
                p = os.path.join(self.cwd, 'c09.json')
                S.dump(p, roots=self.sf)
                self.files.append(p)

    def cleanup(self):
        for p in self.files:
            if os.path.exists(p):
                os.remove(p)

    def call(self):
        """Run the entry point; return list of (result node, table)."""
        c = self.case
        e = c['entry']
        A, b, nm, n, F = self.A, self.b, self.nm, self.n, self.F
        ar = (self.api == 'autoref')
        m = A if ar else b
        t = self.tabs
        o = self.ops
        names = lambda mask: [nm[j] for j in range(n) if (mask >> j) & 1]
        a1, a2 = c['a1'], c['a2']
        if e == 'apply':
            op = sorted(tt.BINARY)[a1 % len(tt.BINARY)]
            return [(m.apply(op, o[0], o[1]),
                     tt.BINARY[op](t[0], t[1], n))]
        if e == 'funcop':
            if not ar:
                return [(b.apply('xor', o[0], o[1]), t[0] ^ t[1])]
            k = a1 % 5
            if k == 0:
                return [(~o[0], ~t[0] & F)]
            if k == 1:
                return [(o[0] & o[1], t[0] & t[1])]
            if k == 2:
                return [(o[0] | o[1], t[0] | t[1])]
            if k == 3:
                return [(o[0].implies(o[1]), tt.c_implies(t[0], t[1], n))]
            return [(o[0].equiv(o[1]), tt.c_equiv(t[0], t[1], n))]
        if e == 'ite':
            if ar and a2 & 2:
                # operands that nothing else references (computed in the
                # argument list): the callee has to keep them alive
                return [(m.ite(o[0] | ~o[1], o[1] & o[2], o[2].equiv(o[0])),
                         tt.ite((t[0] | ~t[1]) & F, t[1] & t[2],
                                ~(t[2] ^ t[0]) & F, n))]
            return [(m.ite(o[0], o[1], o[2]),
                     tt.ite(t[0], t[1], t[2], n))]
        if e == 'quantify':
            js = [j for j in range(n) if (a1 >> j) & 1]
            fa = bool(a2 % 2)
            want = tt.forall(t[0], n, js) if fa else tt.exists(t[0], n, js)
            q = set(names(a1))
            if a2 & 2:
                q = (x for x in names(a1))      # one-shot iterator
            elif a2 & 4:
                q = map(str, names(a1))
            return [(m.quantify(o[0], q, forall=fa), want)]
        if e == 'exist_forall':
            js = [j for j in range(n) if (a1 >> j) & 1]
            q = names(a1)
            if a2 & 2:
                q = iter(q)
            elif a2 & 4:
                q = (x for x in names(a1))
            if a2 % 2:
                return [(m.forall(q, o[0]), tt.forall(t[0], n, js))]
            return [(m.exist(q, o[0]), tt.exists(t[0], n, js))]
        if e == 'apply_quant':
            js = [j for j in range(n) if (a1 >> j) & 1]
            alias = ['\\A', 'forall', '\\E', 'exists'][a2 % 4]
            fa = a2 % 4 < 2
            with _reordering_off(m):
                c = m.cube({x: True for x in names(a1)})
                if not ar:
                    b.incref(c)
                self.extra_held = [c]
            want = tt.forall(t[0], n, js) if fa else tt.exists(t[0], n, js)
            return [(m.apply(alias, c, o[0]), want)]
        if e == 'let_const':
            d = {nm[j]: bool((a2 >> j) & 1) for j in range(n)
                 if (a1 >> j) & 1} or {nm[0]: True}
            want = tt.cofactor(t[0], n, {nm.index(x): v
                                         for x, v in d.items()})
            return [(m.let(d, o[0]), want)]
        if e == 'let_compose':
            keys = [j for j in range(n) if (a1 >> j) & 1][:2] or [0]
            d = {nm[j]: o[1 + i % 2] for i, j in enumerate(keys)}
            want = tt.compose(t[0], n, {j: t[1 + i % 2]
                                        for i, j in enumerate(keys)})
            if ar and a2 & 2:
                # replacement functions that only the dict holds
                want = tt.compose(t[0], n, {
                    j: (~t[1 + i % 2] | t[0]) & F
                    for i, j in enumerate(keys)})
                return [(m.let({nm[j]: o[1 + i % 2].implies(o[0])
                                for i, j in enumerate(keys)}, o[0]), want)]
            return [(m.let(d, o[0]), want)]
        if e == 'let_rename':
            keys = [j for j in range(n) if (a1 >> j) & 1] or [0]
            d = {nm[j]: nm[(j + 1 + a2) % n] for j in keys}
            want = tt.rename(t[0], n, {j: (j + 1 + a2) % n for j in keys})
            return [(m.let(d, o[0]), want)]
        if e == 'cube':
            d = {nm[j]: bool((a2 >> j) & 1) for j in range(n)
                 if (a1 >> j) & 1}
            want = F
            for x, v in d.items():
                xv = tt.var(n, nm.index(x))
                want &= xv if v else (~xv & F)
            if all(d.values()) and a2 & 8:
                # positive cube given as list / generator of names
                arg = list(d) if a1 & 1 else (x for x in list(d))
                return [(m.cube(arg), want)]
            return [(m.cube(d), want)]
        if e == 'var':
            j = a1 % n
            return [(m.var(nm[j]), tt.var(n, j))]
        if e == 'add_expr':
            x, y, z = nm[a1 % n], nm[(a1 + 1) % n], nm[(a2 + 2) % n]
            s = (f'(@{self.node(o[0])} /\\ {x}) \\/ '
                 f'(\\E {y}: @{self.node(o[1])} # {z})')
            want = (t[0] & tt.var(n, nm.index(x))) | tt.exists(
                t[1] ^ tt.var(n, nm.index(z)), n, [nm.index(y)])
            if a2 & 1 and x != y:
                # the substitution operator of the grammar (an exchange
                # of two variables) around a sub-formula
                s = (f'({s}) /\\ (\\S {x} / {y}, {y} / {x}: '
                     f'(@{self.node(o[0])} \\/ ~ {y}))')
                ix, iy = nm.index(x), nm.index(y)
                want &= tt.rename(t[0] | (~tt.var(n, iy) & tt.full(n)),
                                  n, {ix: iy, iy: ix})
            return [(m.add_expr(s), want)]
        if e == 'copy':
            if ar:
                return [(self.src.copy(f, A), tb)
                        for f, tb in zip(self.sf, t)]
            return [(self.src._bdd.copy(f.node, b), tb)
                    for f, tb in zip(self.sf, t)]
        if e == 'ar_copy_bdd':
            if ar:
                return [(self._ar.copy_bdd(f, A), tb)
                        for f, tb in zip(self.sf, t)]
            return [(self._bdd.copy_bdd(f.node, self.src._bdd, b), tb)
                    for f, tb in zip(self.sf, t)]
        if e == '_copy_copy_bdd':
            import dd._copy as _copy
            return [(r, tb) for r, tb in zip(
                _copy.copy_bdds_from(self.sf, A), t)]
        if e == 'load_pickle':
            if ar:
                rs = A.load(self.files[0], levels=False)
            else:
                rs = b.load(self.files[0], levels=False)
            return list(zip(rs, t))
        if e == 'load_json':
            rs = A.load(self.files[0])
            return list(zip(rs, t))
        if e in ('image', 'preimage'):
            # pairs (nm[0], nm[1]) [and (nm[2], nm[3])]: adjacency is not
            # guaranteed after a reordering, image accepts that
            pairs = [(nm[0], nm[1])]
            q = names(a1)
            if e == 'preimage':
                ren = {a: p for a, p in pairs}
                want = tt.exists(t[0] & tt.rename(t[1], n, {0: 1}), n,
                                 [nm.index(x) for x in q])
                if ar:
                    return [(self._ar.preimage(o[0], o[1], ren, set(q)),
                             want)]
                return [(self._bdd.preimage(o[0], o[1], ren, set(q), b),
                         want)]
            ren = {p: a for a, p in pairs}
            q = sorted(set(q) | {nm[0]})
            want = tt.rename(tt.exists(t[0] & t[1], n,
                                       [nm.index(x) for x in q]), n, {1: 0})
            if ar:
                return [(self._ar.image(o[0], o[1], ren, set(q)), want)]
            return [(self._bdd.image(o[0], o[1], ren, set(q), b), want)]
        if e == 'find_or_add':
            # node for ite(x, hi, lo) with hi, lo independent of x and
            # everything currently above x
            x = nm[a1 % n]
            lvl = b.vars[x]
            above = [nm.index(y) for y, l in b.vars.items() if l <= lvl]
            lo_t = tt.exists(t[0], n, above)
            hi_t = tt.forall(t[1], n, above)
            bd = Builder(b, nm)
            with _reordering_off(m):
                lo, hi = bd(lo_t), bd(hi_t)
                if ar:
                    lo = self._ar.Function(lo, A)
                    hi = self._ar.Function(hi, A)
                else:
                    b.incref(lo)
                    b.incref(hi)
            want = tt.ite(tt.var(n, nm.index(x)), hi_t, lo_t, n)
            if ar:
                return [(A.find_or_add(x, lo, hi), want)]
            r = b.find_or_add(lvl, lo, hi)
            return [(r, want)]
        raise ValueError(e)


class _reordering_off:
    def __init__(self, m):
        self.m = m

    def __enter__(self):
        self.was = self.m.configure(reordering=False)['reordering']

    def __exit__(self, *a):
        if self.was:
            self.m.configure(reordering=True)


def run_once(case, cwd, k):
    """k=None: reference run (reordering off), returns request count.
    k>=1: trigger at the k-th request."""
    import dd.bdd as _bdd
    import gc
    sc = Scenario(case, cwd)
    orig = _bdd._request_reordering
    trig = Trigger(k if k else -1)
    try:
        b = sc.b
        m = sc.A if sc.api == 'autoref' else b
        before_nodes = [sc.node(x) for x in sc.ops]
        if k is None:
            # count requests with reordering "armed" but never firing
            m.configure(reordering=True)
            _bdd._request_reordering = trig
        else:
            m.configure(reordering=True)
            _bdd._request_reordering = trig
        order_before = dict(b.vars)
        len_before = len(b)
        try:
            res = sc.call()
        except _bdd._NeedsReordering:
            raise Violation('signal_escaped_to_caller',
                            dict(entry=case['entry'], k=k))
        finally:
            _bdd._request_reordering = orig
        require(b.configure()['reordering'] is True,
                'reordering_disabled_afterwards', dict(k=k))
        require(b._reordering_context in (False, None),
                'reordering_context_left_set')
        den = Den(b, sc.nm)
        held = []
        for r, want in res:
            u = sc.node(r)
            require(abs(u) in b._succ, 'result.not_in_manager', dict(k=k))
            got = den(u)
            require(got == want, 'result.differs_from_reference',
                    dict(k=k, got=got, want=want))
            if not isinstance(r, int):
                held.append(r)
        for x, t, u0 in zip(sc.ops, sc.tabs, before_nodes):
            u = sc.node(x)
            require(u == u0, 'operand.identity_changed', dict(k=k))
            require(abs(u) in b._succ and den(u) == t,
                    'operand.changed_function', dict(k=k))
        # exact counts
        led = {}
        if sc.api == 'autoref':
            for f in {id(f): f for f in list(sc.ops) + held}.values():
                led[abs(f.node)] = led.get(abs(f.node), 0) + 1
        else:
            for u in sc.ops:
                led[abs(u)] = led.get(abs(u), 0) + 1
        if case['entry'] in ('find_or_add', 'apply_quant'):
            led = None      # harness holds lo/hi (the cube) as well
        inv.check_manager(b, led, sc.nm, semantic=(sc.n <= 5))
        changed = dict(b.vars) != order_before
        return trig.count, trig.fired, changed
    finally:
        _bdd._request_reordering = orig
        sc.cleanup()
        del sc
        gc.collect()


def check_case(case, cwd, out=None):
    """Sweep all trigger positions; returns (K, fired_nontrivial)."""
    K, _, _ = run_once(case, cwd, None)
    nt = 0
    for k in range(1, K + 2):
        c2 = dict(case, k=k)
        if out is not None:
            res = []
            ok = out.guard(c2, lambda: res.append(run_once(case, cwd, k)))
            if ok:
                _, fired, changed = res[0]
                out.case(fired and changed, c2)
                if fired and changed:
                    nt += 1
                out.label('trigger.fired' if fired else 'trigger.not_reached')
            else:
                out.case(False, c2)
        else:
            run_once(case, cwd, k)
    return K, nt


def run_schedule(spec, out):
    import hypothesis
    from hypothesis import given, settings, strategies as st, HealthCheck
    cwd = os.getcwd()
    known_bad = set(spec.get('exclude', EXCLUDED))
    only = spec.get('only')

    @st.composite
    def cases(draw, entry):
        n = draw(st.integers(4, 6))
        F = tt.full(n)

        def table():
            k = draw(st.integers(0, 3))
            if k == 0:
                return draw(st.integers(0, F))
            # structured: few variables, small diagrams
            js = draw(st.lists(st.integers(0, n - 1), min_size=2,
                               max_size=4, unique=True))
            t = tt.var(n, js[0])
            for j in js[1:]:
                v = tt.var(n, j)
                t = draw(st.sampled_from([t & v, t | v, t ^ v,
                                          ~t & F | v, t & ~v & F]))
            return t
        return dict(kind='schedule', n=n, entry=entry,
                    api=draw(st.sampled_from(['autoref', 'bdd'])),
                    order=list(draw(st.permutations(range(n)))),
                    order2=list(draw(st.permutations(range(n)))),
                    tabs=[table(), table(), table()],
                    garbage=draw(st.lists(st.integers(0, F), max_size=2)),
                    a1=draw(st.integers(0, 63)), a2=draw(st.integers(0, 63)))

    entries = [e for e in ENTRY if e not in known_bad
               and (only is None or e in only)]
    per_entry = max(1, spec['examples'] // len(entries))
    for ei, entry in enumerate(entries):
        @hypothesis.seed(spec['seed'] * 100 + ei)
        @settings(max_examples=per_entry, deadline=None, database=None,
                  suppress_health_check=list(HealthCheck),
                  phases=[hypothesis.Phase.generate])
        @given(cases(entry))
        def test(case):
            if case['entry'] in ('_copy_copy_bdd', 'load_json') and \
                    case['api'] == 'bdd':
                case = dict(case, api='autoref')
            res = []
            if out.guard(dict(case, k=None),
                         lambda: res.append(check_case(case, cwd, out))):
                K, nt = res[0]
                out.label(f'entry.{case["entry"]}')
                out.label('K', K)
                if nt:
                    out.sample(dict(case, K=K))
        test()


# entry points listed as open known findings (KNOWN_FINDINGS.json):
# excluded from the search by construction, probed separately
EXCLUDED = []


def run(spec, out):
    if spec['kind'] == 'schedule':
        run_schedule(spec, out)
    else:
        H.run_random(spec, out, ALPHA, nontrivial_hist)


def replay_into(case, out):
    if case.get('kind') == 'history':
        return H.replay_into(case, out)
    cwd = os.getcwd()
    k = case.get('k')
    c = {kk: v for kk, v in case.items() if kk != 'k'}
    if k is None:
        out.guard(case, lambda: check_case(c, cwd))
    else:
        out.guard(case, lambda: run_once(c, cwd, k))
    out.count(1, 0)
