"""C10 — count, pick, pick_iter, support describe exactly the satisfying
assignments."""
import itertools
import random

from .. import histprop as H
from .. import tt, fix
from ..denote import Den, Builder
from ..viol import Violation, require

ID = 'C10'
LEVEL = 'exploration'
RULE = (
    'Sandwich: support / count / pick_iter / is_essential of all 256 functions over a manager with an unused variable, one perturbation (undeclare / declare / swap / collect / reorder / sift), the same queries again. '
    'H: Hypothesis histories in which support / is_essential / count / pick / pick_iter are queried between constructions, drops, collections (node numbers re-used), swaps, reorderings and (un)declarations. '
    'E: every function of n<=4 variables (n<=3: all orders; n=4: 2 seeded '
    'orders quick / 6 thorough, split in parts), regular and complemented '
    'references: support and is_essential for every declared name and one '
    'undeclared name; count(u) and count(u, k) for k = 0..|support|+3 (k < '
    '|support| must raise ValueError); pick_iter(u, care) for care=None and '
    'every subset of the declared names (sub- and supersets of the '
    'support); pick(u), pick(u, care); dd.bdd, dd.autoref and '
    'Function.count/pick/support (n<=3). Oracle (validity predicate): each '
    'yielded dict mentions every care variable and only declared names, '
    'every completion of it satisfies u, yielded cubes are pairwise '
    'disjoint and their union is exactly the model set; with care=None '
    'exactly the models over the support, count(u) many; pick is None iff '
    'u is false. Non-trivial: support not contiguous in the order or the '
    'reference is complemented; distinct = (order, function).')
ASSUMPTIONS = [
    'pick_iter results are judged by a validity predicate, not by one '
    'expected enumeration order',
]


HIST_ALPHA = {'fork': 2, 'build': 10, 'repeat': 6, 'churn': 2, 'apply': 4, 'queries': 16, 'drop': 8, 'gc': 6, 'swap': 4, 'sift': 1, 'reorder_to': 2, 'declare': 2, 'undeclare': 4, 'var': 1, 'quantify': 1}


def _hist_nontrivial(w):
    return w.labels.get('queries', 0) > 0 and (w.labels.get('gc.number_reused', 0) > 0 or bool(w.nontrivial & {'swap', 'sift', 'reorder_to'}) or w.labels.get('undeclare.removed', 0) > 0)


def _hist_plan(tier, seed):
    cfgs = [dict(kind='bdd', nmax=4, init_vars=3), dict(kind='bdd', nmax=5, init_vars=4, reordering=True, reorder_starts=4), dict(kind='autoref', nmax=4, init_vars=4, reordering=True, reorder_starts=8), dict(kind='bdd', nmax=4, init_vars=3, ctor='levels', ctor_seed=2), dict(kind='autoref', nmax=5, init_vars=4, ctor='levels', ctor_seed=5), dict(kind='bdd', nmax=5, init_vars=4), dict(kind='autoref', nmax=4, init_vars=3), dict(kind='bdd', nmax=10, init_vars=9, semantic=False), dict(kind='bdd', nmax=12, init_vars=11, semantic=False), dict(kind='bdd', nmax=14, init_vars=13, semantic=False), dict(kind='autoref', nmax=10, init_vars=10, semantic=False)]
    return [dict(kind='history', seed=seed * 1000 + 500 + s, cfgs=cfgs,
                 examples=1200 if tier == 'thorough' else 300,
                 min_len=10, max_len=45)
            for s in range(8 if tier == 'thorough' else 4)]


def _sandwich_calls(b, refs, nm, den):
    n = 3
    for t in range(256):
        def call(t=t):
            u = refs[t]
            sup = {nm[j] for j in tt.support(t, n)}
            require(set(b.support(u)) == sup,
                    'support.wrong_after_perturbation',
                    dict(got=sorted(b.support(u)), want=sorted(sup)))
            k = len(sup)
            base = tt.popcount(t) >> (n - k)
            require(b.count(u) == base, 'count.wrong_after_perturbation')
            require(b.count(u, k + 2) == base * 4,
                    'count.wrong_after_perturbation')
            items = list(b.pick_iter(u))
            require(len(items) == base and all(set(d) == sup for d in items),
                    'pick_iter.wrong_after_perturbation')
            for d in items:
                i = sum(1 << nm.index(x) for x, v in d.items() if v)
                require((t >> i) & 1, 'pick_iter.not_model')
            care = set(nm)
            full = list(b.pick_iter(u, care))
            require(len(full) == tt.popcount(t),
                    'pick_iter.care_wrong_after_perturbation',
                    dict(got=len(full), want=tt.popcount(t)))
            for x in nm:
                require(bool(b.is_essential(u, x)) == (x in sup),
                        'is_essential.wrong_after_perturbation')
        yield dict(t=t), call


def plan(tier, seed):
    specs = []
    specs += _hist_plan(tier, seed)
    specs += fix.sandwich_specs(tier, seed)
    for n in (0, 1, 2, 3):
        for order in fix.orders(n):
            specs.append(dict(kind='all', n=n, order=order, part=0, parts=1,
                              autoref=True, seed=seed))
    k = 6 if tier == 'thorough' else 2
    parts = 8 if tier == 'thorough' else 6
    for order in fix.pick_orders(4, k, seed):
        for p in range(parts):
            specs.append(dict(kind='all', n=4, order=order, part=p,
                              parts=parts, autoref=False, seed=seed))
    return specs


def expand(d, nm, n):
    """All assignment indices (over nm) compatible with partial dict d."""
    fixed = 0
    free = []
    for j, x in enumerate(nm):
        if x in d:
            if d[x]:
                fixed |= 1 << j
        else:
            free.append(j)
    out = []
    for bits in range(1 << len(free)):
        i = fixed
        for k, j in enumerate(free):
            if (bits >> k) & 1:
                i |= 1 << j
        out.append(i)
    return out


def check_pick_iter(items, t, nm, n, care, sup_names):
    models = set(tt.models(t, n))
    covered = set()
    for d in items:
        require(isinstance(d, dict), 'pick_iter.not_dict')
        keys = set(d)
        require(keys <= set(nm), 'pick_iter.undeclared_name',
                dict(d=d))
        if care is not None:
            require(set(care) <= keys, 'pick_iter.care_var_missing',
                    dict(d=d, care=sorted(care)))
        else:
            require(keys == sup_names, 'pick_iter.default_not_support',
                    dict(d=d, support=sorted(sup_names)))
        for v in d.values():
            require(isinstance(v, bool), 'pick_iter.value_not_bool',
                    dict(d=d))
        ex = expand(d, nm, n)
        s = set(ex)
        require(s <= models, 'pick_iter.completion_not_model', dict(d=d))
        require(not (s & covered), 'pick_iter.overlap', dict(d=d))
        covered |= s
    require(covered == models, 'pick_iter.models_not_covered',
            dict(missing=len(models - covered)))


def check_function(api, u, t, nm, n, order, subsets, count_fn, pick_fn,
                   pick_iter_fn, support_fn, essential_fn):
    F = tt.full(n)
    sup = tt.support(t, n)
    sup_names = {nm[j] for j in sup}
    got = support_fn(u)
    require(set(got) == sup_names, 'support.wrong',
            dict(got=sorted(got), want=sorted(sup_names)))
    if essential_fn is not None:
        for x in nm:
            require(bool(essential_fn(u, x)) == (x in sup_names),
                    'is_essential.wrong', dict(x=x))
        require(not essential_fn(u, 'zz_undeclared'),
                'is_essential.undeclared')
    k = len(sup)
    base = tt.popcount(t) >> (n - k)
    require(count_fn(u, None) == base, 'count.default_wrong',
            dict(got=count_fn(u, None), want=base))
    for m in range(0, k + 4):
        if m < k:
            try:
                r = count_fn(u, m)
            except ValueError:
                continue
            raise Violation('count.too_few_vars_accepted',
                            dict(m=m, k=k, got=r))
        want = base << (m - k)
        got = count_fn(u, m)
        require(got == want, 'count.wrong', dict(m=m, got=got, want=want))
    # pick_iter
    items = list(pick_iter_fn(u, None))
    check_pick_iter(items, t, nm, n, None, sup_names)
    require(len(items) == base, 'pick_iter.default_count',
            dict(got=len(items), want=base))
    for care in subsets:
        items = list(pick_iter_fn(u, set(care)))
        check_pick_iter(items, t, nm, n, care, sup_names)
    # pick
    p = pick_fn(u, None)
    if t == 0:
        require(p is None, 'pick.false_not_none', dict(p=p))
    else:
        require(p is not None, 'pick.none_for_satisfiable')
        check_one = [p]
        require(set(p) == sup_names, 'pick.default_not_support', dict(p=p))
        require(set(expand(p, nm, n)) <= set(tt.models(t, n)),
                'pick.not_model', dict(p=p))
    for care in subsets[::3]:
        p = pick_fn(u, set(care))
        if t == 0:
            require(p is None, 'pick.false_not_none', dict(p=p))
        else:
            require(p is not None and set(care) <= set(p),
                    'pick.care_var_missing', dict(p=p))
            require(set(expand(p, nm, n)) <= set(tt.models(t, n)),
                    'pick.not_model', dict(p=p))


def run_all(spec, out):
    n = spec['n']
    nm = fix.names(n)
    order = spec['order']
    F = tt.full(n)
    b = fix.new_bdd(order)
    bd = Builder(b, nm)
    refs = [bd(t) for t in range(F + 1)]
    subsets = [[nm[j] for j in range(n) if (m >> j) & 1]
               for m in range(1 << n)]
    base = {k: spec[k] for k in ('kind', 'n', 'order', 'part', 'parts',
                                 'seed')}
    lvl = {x: l for l, x in enumerate(order)}
    nt = 0
    cnt = 0
    if spec['autoref']:
        import dd.autoref as _ar
        A = _ar.BDD()
        A.declare(*order)
        abd = Builder(A._bdd, nm)
    for t in range(spec['part'], F + 1, spec['parts']):
        u = refs[t]
        case = dict(base, t=t)
        out.guard(case, lambda: check_function(
            b, u, t, nm, n, order, subsets,
            lambda u, m: b.count(u) if m is None else b.count(u, m),
            lambda u, c: b.pick(u) if c is None else b.pick(u, c),
            lambda u, c: b.pick_iter(u) if c is None else b.pick_iter(u, c),
            b.support, b.is_essential))
        cnt += 1
        if spec['autoref']:
            f = _ar.Function(abd(t), A)
            out.guard(dict(case, api='autoref'), lambda: check_function(
                A, f, t, nm, n, order, subsets,
                lambda u, m: A.count(u) if m is None else A.count(u, m),
                lambda u, c: A.pick(u) if c is None else A.pick(u, c),
                lambda u, c: A.pick_iter(u) if c is None
                else A.pick_iter(u, c),
                A.support, None))
            out.guard(dict(case, api='Function'), lambda: check_function(
                A, f, t, nm, n, order, subsets,
                lambda u, m: u.count() if m is None else u.count(m),
                lambda u, c: u.pick() if c is None else u.pick(c),
                lambda u, c: A.pick_iter(u) if c is None
                else A.pick_iter(u, c),
                lambda u: u.support, None))
            cnt += 2
            f.node = None
        ls = sorted(lvl[nm[j]] for j in tt.support(t, n))
        gap = bool(ls) and (ls[-1] - ls[0] + 1 != len(ls) or ls[0] != 0)
        if gap or u < 0:
            nt += 3 if spec['autoref'] else 1
    out.count(cnt, nt)
    out.sample(dict(base, t=F // 7, support=sorted(
        nm[j] for j in tt.support(F // 7, n)),
        count=tt.popcount(F // 7)))
    out.exhaustive = True


def run(spec, out):
    if spec['kind'] == 'sandwich':
        return fix.run_sandwich(spec, out, _sandwich_calls)
    if spec['kind'] == 'history':
        return H.run_random(spec, out, HIST_ALPHA, _hist_nontrivial)
    run_all(spec, out)


def replay_into(case, out):
    if case.get('kind') == 'sandwich':
        return fix.run_sandwich({k: case[k] for k in (
            'kind', 'perturbation', 'pos', 'order', 'seed')}, out,
            _sandwich_calls)
    if case.get('kind') == 'history':
        return H.replay_into(case, out)
    spec = {k: case[k] for k in ('kind', 'n', 'order', 'seed')}
    spec.update(part=case['t'], parts=tt.full(case['n']) + 1,
                autoref=case['n'] <= 3)
    run_all(spec, out)
