"""C05 — `add_expr` gives each formula its documented meaning;
`to_expr` round-trips."""
import itertools
import random

from .. import tt, fix, exprgen as G
from ..denote import Den, Builder
from ..viol import Violation, require

ID = 'C05'
LEVEL = 'exploration'
RULE = (
    'H: Hypothesis histories in which add_expr (with @ references) and the to_expr round trip run between drops, collections (node numbers re-used), swaps and reorderings. Variable names include spellings that differ from the reserved words only by case or a suffix (Ite, ITE, tRUE, TRUEx, A, E, S ...). '
    'E: every string `a op1 b op2 c`, `~ a op1 b op2 c`, `a op1 ~ b op2 c`, '
    '`Q x: a op1 b op2 c`, `a op1 Q x: b op2 c`, `\\S c/a: a op1 b op2 c` '
    'and four-operand chains over every ordered pair (triple for a seeded '
    'subset) of the 13 binary spellings with no parentheses, all 6 orders '
    'of a,b,c; value expected from the documented precedence table by '
    'leftmost-highest reduction. R: Hypothesis ASTs (constants TRUE/FALSE/'
    'True/False, names with digits _ and primes, @n references of either '
    'sign in both spellings, unary ~ !, 13 binary spellings, ite(), \\A \\E '
    'with 1-3 names, \\S new/old lists, redundant parentheses) printed with '
    'minimal parentheses and generated whitespace, newlines and both '
    'comment forms; dd.bdd and dd.autoref managers alternately (shared '
    'translator singleton). Round trip: add_expr(to_expr(u)) == u for every '
    'function of n<=4 (all orders n<=3, seeded orders n=4), also after '
    'swaps. Oracle: AST evaluated on truth tables. Non-trivial: >=2 '
    'operators adjacent without parentheses (R) / the two groupings differ '
    '(E); distinct = the formula string + order.')
ASSUMPTIONS = [
    'direction of \\S new/old taken from tests/bdd_test.py::'
    'test_rename_syntax; everything else from doc.md',
    '`=` is not generated (in the grammar, no documented meaning)',
    'lowercase true/false and names containing `.` are documented but '
    'rejected by the lexer: probed separately (KNOWN_FINDINGS), not '
    'generated',
]

NAMES3 = ('a', 'b', 'c')
OWN_NAMES = True     # replays of this module spell their own names


HIST_ALPHA = {'bad': (1, [54, 65535, 65535]), 'full': 2,
              'build': 8, 'to_expr': 16, 'add_expr': 12, 'repeat': 6,
              'churn': 5, 'drop': 8, 'gc': 6, 'gc_roots': 2, 'swap': 3,
              'sift': 1, 'reorder_to': 1, 'apply': 3, 'declare': 1,
              'undeclare': 2, 'quantify': 1}


def _hist_nontrivial(w):
    return w.labels.get('gc.number_reused', 0) > 0 or bool(
        w.nontrivial & {'swap', 'sift', 'reorder_to'})


def plan(tier, seed):
    specs = []
    from .. import histprop as H_
    cfgs = [dict(kind='bdd', nmax=4, init_vars=3), dict(kind='bdd', nmax=5, init_vars=4, reordering=True, reorder_starts=4), dict(kind='autoref', nmax=4, init_vars=4, reordering=True, reorder_starts=8),
            dict(kind='bdd', nmax=5, init_vars=4),
            dict(kind='autoref', nmax=4, init_vars=3)]
    for s_ in range(8 if tier == 'thorough' else 4):
        specs.append(dict(kind='history', seed=seed * 1000 + 300 + s_,
                          cfgs=cfgs,
                          examples=1200 if tier == 'thorough' else 300,
                          min_len=10, max_len=40))
    import itertools as _it
    for order in _it.permutations(NAMES3):
        specs.append(dict(kind='pairs', order=list(order), seed=seed,
                          triples=(400 if tier == 'thorough' else 60)))
    ks = 12 if tier == 'thorough' else 5
    for s in range(ks):
        specs.append(dict(kind='random', seed=seed * 100 + s,
                          examples=2500 if tier == 'thorough' else 500))
    for n in (1, 2, 3):
        for order in fix.orders(n):
            specs.append(dict(kind='roundtrip', n=n, order=order, part=0,
                              parts=1, seed=seed))
    parts = 4
    for order in fix.pick_orders(4, 4 if tier == 'thorough' else 1, seed):
        for p in range(parts):
            specs.append(dict(kind='roundtrip', n=4, order=order, part=p,
                              parts=parts, seed=seed))
    return specs


# --------------------------------------------------------------- pairs
def run_pairs(spec, out):
    n = 3
    nm = NAMES3
    order = spec['order']
    b = fix.new_bdd(order)
    den = Den(b, nm)
    F = tt.full(n)
    va, vb, vc = (tt.var(n, j) for j in range(3))
    base = dict(kind='pairs', order=order)
    sp = G.ALL_BINARY_SPELLINGS
    cnt = nt = 0

    def check(s, want, differ):
        nonlocal cnt, nt
        cnt += 1
        if differ:
            nt += 1

        def body():
            got = den(b.add_expr(s))
            require(got == want, 'precedence.wrong_meaning',
                    dict(s=s, got=got, want=want))
        out.guard(dict(base, s=s, want=want), body)

    for o1, o2 in itertools.product(sp, repeat=2):
        f1 = G.CONNECTIVE[G.LEVELS[G.SPELLING_LEVEL[o1]][0]]
        f2 = G.CONNECTIVE[G.LEVELS[G.SPELLING_LEVEL[o2]][0]]
        left = f2(f1(va, vb, n), vc, n)
        right = f1(va, f2(vb, vc, n), n)
        want = G.flat_expected([va, vb, vc], [o1, o2], n)
        check(f'a {o1} b {o2} c', want, left != right)
        # unary binds tightest
        na = ~va & F
        nb = ~vb & F
        check(f'~ a {o1} b {o2} c',
              G.flat_expected([na, vb, vc], [o1, o2], n), True)
        check(f'a {o1} ! b {o2} c',
              G.flat_expected([va, nb, vc], [o1, o2], n), True)
        # binder body extends as far right as possible
        body_t = G.flat_expected([va, vb, vc], [o1, o2], n)
        check(f'\\E a: a {o1} b {o2} c', tt.exists(body_t, n, [0]), True)
        check(f'\\A b: a {o1} b {o2} c', tt.forall(body_t, n, [1]), True)
        inner = tt.exists(f2(vb, vc, n), n, [1])
        check(f'a {o1} \\E b: b {o2} c', f1(va, inner, n), True)
        inner = tt.forall(f2(vb, vc, n), n, [2])
        check(f'a {o1} \\A c: b {o2} c', f1(va, inner, n), True)
        check(f'\\S c / a: a {o1} b {o2} c',
              tt.rename(body_t, n, {0: 2}), True)
        check(f'~ \\E a: a {o1} b {o2} c',
              ~tt.exists(body_t, n, [0]) & F, True)
        # ite arguments are delimited
        check(f'ite(a {o1} b, b {o2} c, c {o1} a)',
              tt.ite(f1(va, vb, n), f2(vb, vc, n), f1(vc, va, n), n), False)
    r = random.Random(f'c05:{spec["seed"]}:{order}')
    trip = list(itertools.product(sp, repeat=3))
    for o1, o2, o3 in r.sample(trip, spec['triples']):
        vals = [va, vb, vc, va ^ vc]
        want = G.flat_expected([va, vb, vc, va], [o1, o2, o3], n)
        check(f'a {o1} b {o2} c {o3} a', want, True)
    out.count(cnt, nt)
    out.sample(dict(base, s='a => b /\\ c <=> a', note='one of the strings'))
    out.exhaustive = True


# --------------------------------------------------------------- random
VAR_NAMES = ['x', 'y1', '_z', "w'", "Ab_2'"]
# names that differ from the reserved words only by case / a suffix (all
# of them ordinary identifiers by the documented grammar)
ODD_NAMES = ['Ite', 'ITE', 'tRUE', 'fALSE', 'iTe', 'TRUEx', 'ite_', 'FALSE1',
             'True_', 'A', 'E', 'S', "v''", "s'_1", "q'2'"]


def check_formula_case(case, managers=None):
    """case: dict(ast=, order=, ws=[...], api=, refs=[tables])."""
    import dd.autoref as _ar
    names = VAR_NAMES[:case['nvars']]
    if case.get('odd'):
        # replace some names by near-reserved spellings (the AST refers to
        # variables by the names of VAR_NAMES: rename consistently)
        ren = {}
        for k, x in enumerate(names):
            if (case['odd'] >> k) & 1:
                ren[x] = ODD_NAMES[(case['odd'] + 3 * k) % len(ODD_NAMES)]
        if len(set(ren.values())) == len(ren):
            names = [ren.get(x, x) for x in names]
            case = dict(case, ast=_rename_ast(case['ast'], ren))
    n = len(names)
    idx = {x: j for j, x in enumerate(names)}
    order = [names[i] for i in case['order']]
    if case['api'] == 'autoref':
        A = _ar.BDD()
        A.declare(*order)
        b = A._bdd
    else:
        A = None
        b = fix.new_bdd(order)
    bd = Builder(b, names)
    refs = []
    F = tt.full(n)
    for t in case['refs']:
        t &= F
        u = bd(t)
        b.incref(u)
        refs.append((u, t))
    env = dict(n=n, idx=idx, refs=refs)
    ast = _tuplify(case['ast'])
    want = G.evaluate(ast, env)
    pr = G.Printer(env)
    toks = pr.tokens(ast)
    ws = case['ws']
    s = G.join(toks, lambda i: ws[i % len(ws)] if ws else 1)
    if A is not None:
        r = A.add_expr(s).node
    else:
        r = b.add_expr(s)
    got = Den(b, names)(r)
    require(got == want, 'add_expr.wrong_meaning',
            dict(s=s, got=got, want=want))
    # all references still denote their tables
    d = Den(b, names)
    for u, t in refs:
        require(d(u) == t, 'operand_changed')
    return pr.adjacent >= 2, s


def _rename_ast(a, ren):
    if isinstance(a, (list, tuple)):
        if a and a[0] == 'var':
            return ('var', ren.get(a[1], a[1]))
        if a and a[0] == 'quant':
            return ('quant', a[1], [ren.get(x, x) for x in a[2]],
                    _rename_ast(a[3], ren))
        if a and a[0] == 'subst':
            return ('subst', [(ren.get(p[0], p[0]), ren.get(p[1], p[1]))
                              for p in a[1]], _rename_ast(a[2], ren))
        return tuple(_rename_ast(x, ren) for x in a)
    return a


def _tuplify(x):
    if isinstance(x, list):
        return tuple(_tuplify(y) for y in x)
    return x


def _needs_refs(ast):
    if isinstance(ast, (list, tuple)):
        if ast and ast[0] == 'ref':
            return ast[1] + 1
        return max([_needs_refs(a) for a in ast] + [0])
    return 0


def run_random(spec, out):
    import hypothesis
    from hypothesis import given, settings, strategies as st, HealthCheck

    @st.composite
    def cases(draw):
        nvars = draw(st.integers(1, 5))
        names = VAR_NAMES[:nvars]
        nrefs = draw(st.integers(0, 3))
        ast = draw(G.ast_strategy(names, nrefs))
        order = draw(st.permutations(list(range(nvars))))
        ws = draw(st.lists(st.integers(0, 9), min_size=1, max_size=12))
        if draw(st.integers(0, 3)):
            ws = [w if w < 7 else 1 for w in ws]   # mostly no comments
        refs = draw(st.lists(st.integers(0, tt.full(nvars)),
                             min_size=nrefs, max_size=nrefs))
        return dict(kind='random', nvars=nvars, ast=ast, order=list(order),
                    ws=ws, refs=refs,
                    odd=draw(st.sampled_from([0, 0, 1, 2, 3, 5, 6, 12, 31])),
                    api=draw(st.sampled_from(['bdd', 'autoref'])))

    @hypothesis.seed(spec['seed'])
    @settings(max_examples=spec['examples'], deadline=None, database=None,
              suppress_health_check=list(HealthCheck),
              phases=[hypothesis.Phase.generate])
    @given(cases())
    def test(case):
        def body():
            nt, s = check_formula_case(case)
            out.case(nt, s + '|' + str(case['order']))
            out.label('adjacent>=2' if nt else 'adjacent<2')
            kinds = _kinds(case['ast'])
            for k in kinds:
                out.label('ast.' + k)
            if nt:
                out.sample(dict(formula=s, order=case['order'],
                                api=case['api']))
        if not out.guard(lambda: _shrunk(case), body):
            out.case(False, None)
    test()


def _kinds(ast):
    s = set()

    def rec(a):
        if isinstance(a, (list, tuple)) and a and isinstance(a[0], str):
            s.add(a[0])
            if a[0] in ('var', 'const', 'ref'):
                return
            for x in a[1:]:
                rec(x)
        elif isinstance(a, (list, tuple)):
            for x in a:
                rec(x)
    rec(ast)
    return s


def _fails(case):
    try:
        check_formula_case(case)
    except Violation:
        return True
    except Exception as e:
        from ..viol import innermost_dd_frame
        return innermost_dd_frame(e) != 'harness'
    return False


def _shrunk(case):
    """Greedy structural shrinking of a failing AST: replace a subtree by
    one of its children or by a leaf while the failure persists."""
    case = dict(case)
    case['ast'] = _tolist(case['ast'])
    budget = [300]

    def subtrees(a, path=()):
        yield path, a
        if isinstance(a, list) and a and a[0] in (
                'not', 'bin', 'ite', 'quant', 'subst', 'paren'):
            for i, x in enumerate(a):
                if isinstance(x, list) and x and isinstance(x[0], str):
                    yield from subtrees(x, path + (i,))

    def replace(a, path, new):
        if not path:
            return new
        a = list(a)
        a[path[0]] = replace(a[path[0]], path[1:], new)
        return a

    changed = True
    while changed and budget[0] > 0:
        changed = False
        for path, sub in list(subtrees(case['ast'])):
            cands = [x for x in sub[1:]
                     if isinstance(x, list) and x and isinstance(x[0], str)]
            cands.append(['var', VAR_NAMES[0]])
            for c in cands:
                if c == sub:
                    continue
                budget[0] -= 1
                if budget[0] <= 0:
                    break
                trial = dict(case, ast=replace(case['ast'], path, c))
                if _needs_refs(trial['ast']) <= len(trial['refs']) and \
                        _fails(trial):
                    case = trial
                    changed = True
                    break
            if changed:
                break
    case['ws'] = [1] if _fails(dict(case, ws=[1])) else case['ws']
    return case


def _tolist(x):
    if isinstance(x, (list, tuple)):
        return [_tolist(y) for y in x]
    return x


# ------------------------------------------------------------ round trip
def run_roundtrip(spec, out):
    n = spec['n']
    nm = fix.names(n)
    F = tt.full(n)
    order = spec['order']
    b = fix.new_bdd(order)
    refs = fix.build_all(b, nm)
    base = {k: spec[k] for k in ('kind', 'n', 'order', 'part', 'parts',
                                 'seed')}
    cnt = nt = 0
    for phase in ('fresh', 'after-swaps'):
        if phase == 'after-swaps':
            if n < 2:
                break
            b.swap(0, 1)
            if n > 2:
                b.swap(n - 2, n - 1)
        for t in range(spec['part'], F + 1, spec['parts']):
            u = refs[t]
            cnt += 1
            if len(tt.support(t, n)) >= 2:
                nt += 1

            def body():
                s = b.to_expr(u)
                r = b.add_expr(s)
                require(r == u, 'to_expr.round_trip',
                        dict(t=t, u=u, r=r, s=s[:200]))
            out.guard(dict(base, t=t, phase=phase), body)
        b.collect_garbage()
    if n <= 3:
        # the same through dd.autoref (BDD.to_expr, Function.to_expr)
        import dd.autoref as _ar
        A = _ar.BDD()
        A.declare(*order)
        abd = Builder(A._bdd, nm)
        for t in range(F + 1):
            f = _ar.Function(abd(t), A)
            cnt += 1

            def body():
                r1 = A.add_expr(A.to_expr(f))
                r2 = A.add_expr(f.to_expr())
                require(r1 == f and r2 == f and int(r1) == int(f),
                        'to_expr.round_trip',
                        dict(t=t, u=int(f), r=int(r1), api='autoref'))
            out.guard(dict(base, t=t, phase='autoref'), body)
            del f
    out.count(cnt, nt)
    out.sample(dict(base, t=F // 3, expr=b.to_expr(refs[F // 3])[:200]))
    out.exhaustive = True


def run(spec, out):
    if spec['kind'] == 'history':
        from .. import histprop as H_
        return H_.run_random(spec, out, HIST_ALPHA, _hist_nontrivial)
    dict(pairs=run_pairs, random=run_random, roundtrip=run_roundtrip)[
        spec['kind']](spec, out)


def probes():
    """Known findings (documented spellings rejected by the lexer)."""
    res = []
    b = fix.new_bdd(['a', 'b'])
    for key, s in (('lowercase-true-false', 'true /\\ ~ false'),
                   ('dotted-name', 'a.b')):
        try:
            if key == 'dotted-name':
                b2 = fix.new_bdd(['a'])
                b2.add_var('a.b')
                u = b2.add_expr('a.b')
                ok = (u == b2.var('a.b'))
            else:
                ok = (b.add_expr(s) == 1)
        except Exception as e:
            res.append((key, f'add_expr({s!r}) raises '
                        f'{type(e).__name__} although doc.md documents '
                        'the spelling', True))
            continue
        res.append((key, 'accepted', not ok))
    return res


def replay_into(case, out):
    if case.get('kind') == 'history':
        from .. import histprop as H_
        return H_.replay_into(case, out)
    k = case['kind']
    if k == 'random':
        out.guard(case, lambda: check_formula_case(case))
        out.count(1, 0)
    elif k == 'pairs' and 's' in case:
        def body():
            b = fix.new_bdd(case['order'])
            got = Den(b, NAMES3)(b.add_expr(case['s']))
            require(got == case['want'], 'precedence.wrong_meaning',
                    dict(s=case['s'], got=got, want=case['want']))
        out.guard(case, body)
        out.count(1, 0)
    elif k == 'roundtrip':
        fix.modernize(case)
        run_roundtrip({kk: case[kk] for kk in
                       ('kind', 'n', 'order', 'part', 'parts', 'seed')}, out)
    else:
        run_pairs(dict(kind='pairs', order=case['order'],
                       seed=case.get('seed', 1), triples=10), out)
