"""C01 — connectives and ITE compute exactly the stated truth function."""
import itertools
import random

from .. import histprop as H
from .. import tt, fix
from ..denote import Den, Builder
from ..viol import Violation, require

ID = 'C01'
LEVEL = 'exploration'
RULE = (
    'One history shard per tier runs under python -O. Histories also contain the cross-cutting operations of the engine (second manager, fork, rejected calls, resource faults, views, file round trips). '
    'Sandwich: a sweep of connectives and ITE over a manager with an unused variable, one perturbation (undeclare / declare / swap / collect / reorder / sift), the same sweep again. '
    'H: Hypothesis histories (dd.bdd and dd.autoref) in which the connectives run with a warm computed table, after full and rooted collections, after node numbers were freed and re-used and after swaps; after every collection a battery of connectives on the held functions is recomputed and compared (non-trivial: a freed node number was re-used or the order changed). '
    'E: n=3, every ordered pair of the 256 functions x every binary alias '
    'of dd._abc (19 spellings) and every ITE triple (all in thorough; a '
    'seeded 1/16 of the first operands in quick), unary aliases, under all '
    '6 orders, on a fresh manager and on a used one (nodes freed and '
    're-used, order reached by swaps, cache cleared at different times); '
    'dd.autoref Function operators ~ & | implies equiv <= < == != on all '
    'pairs; R: Hypothesis operand tables for n=4..8 under random orders. '
    'Oracle: truth tables via succ()-walk. Non-trivial: both operands '
    'non-constant, not equal, not complementary; distinct = '
    '(alias, order, variant, operand tables).')
ASSUMPTIONS = [
    'harness/tt.py connective table is transcribed from doc.md and dd/_abc.py',
    'denotation walks BDD.succ()/var_at_level() only',
    'functions of more than 8 variables are not explored',
]

BIN = sorted(tt.BINARY)


HIST_ALPHA = {'build': 6, 'repeat': 6, 'churn': 4, 'fork': 3, 'compare_all': 5, 'apply': 14, 'funcop': 6, 'not': 2, 'ite': 8, 'drop': 8, 'gc': 6, 'gc_roots': 2, 'swap': 3, 'sift': 1, 'reorder_to': 1, 'var': 1, 'undeclare': 2, 'declare': 1, 'add_var': 1, 'quantify': 1, 'let_compose': 1}


def _hist_nontrivial(w):
    return w.labels.get('gc.number_reused', 0) > 0 or bool(w.nontrivial & {'swap', 'sift', 'reorder_to'})


def _hist_plan(tier, seed):
    cfgs = [dict(kind='bdd', nmax=4, init_vars=3), dict(kind='bdd', nmax=5, init_vars=4, reordering=True, reorder_starts=4), dict(kind='autoref', nmax=4, init_vars=4, reordering=True, reorder_starts=8), dict(kind='bdd', nmax=5, init_vars=4), dict(kind='autoref', nmax=4, init_vars=3), dict(kind='bdd', nmax=10, init_vars=9, semantic=False), dict(kind='bdd', nmax=12, init_vars=11, semantic=False), dict(kind='bdd', nmax=14, init_vars=13, semantic=False), dict(kind='autoref', nmax=10, init_vars=10, semantic=False)]
    return [dict(kind='history', seed=seed * 1000 + 500 + s, cfgs=cfgs,
                 examples=1200 if tier == 'thorough' else 300,
                 min_len=10, max_len=45)
            for s in range(8 if tier == 'thorough' else 4)] + [
        # the interpreter run with -O (assert statements stripped):
        # results must be the same (rejected calls are left out, several
        # refusals are assert statements)
        dict(kind='history', seed=seed * 1000 + 590 + s, cfgs=cfgs[:5],
             examples=800 if tier == 'thorough' else 200,
             min_len=10, max_len=40, pyopt=True,
             exclude=['bad', 'full', 'decref_zero'])
        for s in range(4 if tier == 'thorough' else 1)]


HIST_ALPHA_AR = {'build': 8, 'funcop': 14, 'compare_all': 8, 'churn': 8,
                 'repeat': 4, 'drop': 6, 'gc': 2, 'sift': 3, 'reorder_to': 3,
                 'ite': 2, 'apply': 4, 'traverse': 1, 'copy_handle': 1}


def _sandwich_calls(b, refs, nm, den):
    n = 3
    N = 5
    for op in ('and', 'xor', '=>', '<->', 'diff'):
        fn_ = tt.BINARY[op]
        for tu in range(0, 256, 3):
            for tv in (tu ^ 0x5a, (tu * 7 + 3) & 255, 0x96, 0xe8):
                def call(op=op, tu=tu, tv=tv, fn_=fn_):
                    r = b.apply(op, refs[tu], refs[tv])
                    want = tt.widen(fn_(tu, tv, n), n, N)
                    require(den(r) == want,
                            'binary.wrong_after_perturbation',
                            dict(got=den(r), want=want))
                yield dict(op=op, u=tu, v=tv), call
    for tg in range(0, 256, 5):
        for tu, tv in ((0x96, 0xe8), (tg ^ 0xff, 0x3c), (0x0f, tg)):
            def call(tg=tg, tu=tu, tv=tv):
                r = b.ite(refs[tg], refs[tu], refs[tv])
                want = tt.widen(tt.ite(tg, tu, tv, n), n, N)
                require(den(r) == want, 'ite.wrong_after_perturbation',
                        dict(got=den(r), want=want))
            yield dict(op='ite', g=tg, u=tu, v=tv), call


def plan(tier, seed):
    specs = []
    specs += _hist_plan(tier, seed)
    specs += fix.sandwich_specs(tier, seed)
    for n_ in (0, 1, 2):
        for order in fix.orders(n_):
            specs.append(dict(kind='small', n=n_, order=order, seed=seed))
    # the Function operators and comparisons of dd.autoref, with handles
    # released and node numbers re-used across collections / reorderings
    for s_ in range(6 if tier == 'thorough' else 3):
        specs.append(dict(kind='history', autoref=True,
                          seed=seed * 1000 + 700 + s_,
                          cfgs=[dict(kind='autoref', nmax=3, init_vars=3),
                                dict(kind='autoref', nmax=4, init_vars=3),
                                dict(kind='autoref', nmax=4, init_vars=4)],
                          examples=1200 if tier == 'thorough' else 250,
                          min_len=8, max_len=35))
    ords = fix.orders(3)
    for oi, order in enumerate(ords):
        for variant in ('fresh', 'used'):
            if tier == 'quick' and variant == 'used' and (oi + seed) % 2:
                continue
            specs.append(dict(kind='pairs', order=order, variant=variant,
                              seed=seed))
    # ITE triples
    r = random.Random(f'c01:{seed}')
    for oi, order in enumerate(ords):
        if tier == 'thorough':
            for lo in range(0, 256, 32):
                specs.append(dict(kind='ite', order=order,
                                  gs=list(range(lo, lo + 32)),
                                  variant='used' if (lo // 32) % 2 else 'fresh',
                                  seed=seed))
        else:
            specs.append(dict(kind='ite', order=order,
                              gs=sorted(r.sample(range(256), 16)),
                              variant='used' if oi % 2 else 'fresh',
                              seed=seed))
    for oi, order in enumerate(ords if tier == 'thorough' else ords[:2]):
        specs.append(dict(kind='autoref', order=order, seed=seed))
    nshard = 8 if tier == 'thorough' else 4
    for k in range(nshard):
        specs.append(dict(kind='random', seed=seed * 1000 + k,
                          examples=1500 if tier == 'thorough' else 250))
    return specs


def _manager(spec, nm):
    if spec['variant'] == 'used':
        b = fix.used_bdd(spec['order'], nm, spec['seed'])
    else:
        b = fix.new_bdd(spec['order'])
    refs = fix.build_all(b, nm)
    return b, refs


def _nontrivial_pairs(n):
    F = tt.full(n)
    k = F + 1
    # ordered pairs (u, v), both non-constant, u != v, u != ~v
    nc = k - 2
    return nc * (nc - 2)


def _verify_refs(b, nm, refs, out, case):
    from .. import inv
    inv.check_structure(b)
    den = Den(b, nm)
    for t, u in enumerate(refs):
        if den(u) != t:
            raise Violation('operand_changed', dict(t=t, u=u, now=den(u)))
    return den


def run_pairs(spec, out):
    nm = fix.names(3)
    n = 3
    F = tt.full(n)
    b, refs = _manager(spec, nm)
    den = Den(b, nm)
    base = dict(kind='pairs', order=spec['order'], variant=spec['variant'],
                seed=spec['seed'])
    # unary
    for op in tt.UNARY:
        for t, u in enumerate(refs):
            r = b.apply(op, u)
            if den(r) != (~t & F):
                out.fail('unary.wrong_result',
                         dict(base, op=op, u=t), dict(got=den(r)))
    out.count(3 * 256, 3 * 254)
    k = 0
    for op in BIN:
        fn = tt.BINARY[op]
        bad = 0
        for tu, u in enumerate(refs):
            for tv, v in enumerate(refs):
                r = b.apply(op, u, v)
                if r != refs[fn(tu, tv, n)] or den(r) != fn(tu, tv, n):
                    bad += 1
                    out.fail('binary.wrong_result',
                             dict(base, op=op, u=tu, v=tv),
                             dict(got=den(r), want=fn(tu, tv, n)))
            k += 1
            if k % 97 == 0:
                # clears the computed table only (everything is held)
                b.collect_garbage()
        out.count(256 * 256, _nontrivial_pairs(n))
        ok = out.guard(dict(base, op=op, step='recheck'),
                       lambda: _verify_refs(b, nm, refs, out, base))
        if not ok:
            return
        den = Den(b, nm)
    out.sample(dict(base, op=BIN[0], u=23, v=142,
                    result=tt.BINARY[BIN[0]](23, 142, n)))
    out.exhaustive = True


def run_small(spec, out):
    """Managers with 0, 1 or 2 variables: every alias on every pair,
    every ITE triple, every Function operator (boundary cases: constants
    only, a single variable)."""
    import dd.autoref as _ar
    n = spec['n']
    nm = fix.names(n)
    F = tt.full(n)
    b = fix.new_bdd(spec['order'])
    refs = fix.build_all(b, nm)
    den = Den(b, nm)
    base = dict(kind='small', n=n, order=spec['order'])
    cnt = 0
    for op in tt.UNARY:
        for t, u in enumerate(refs):
            cnt += 1
            r = b.apply(op, u)
            if r != refs[~t & F]:
                out.fail('unary.wrong_result', dict(base, op=op, u=t))
    for op in BIN:
        fn = tt.BINARY[op]
        for tu, u in enumerate(refs):
            for tv, v in enumerate(refs):
                cnt += 1
                case = dict(base, op=op, u=tu, v=tv)

                def body():
                    r = b.apply(op, u, v)
                    require(r == refs[fn(tu, tv, n)] and
                            den(r) == fn(tu, tv, n),
                            'binary.wrong_result', dict(got=den(r)))
                out.guard(case, body)
    for tg, g in enumerate(refs):
        for tu, u in enumerate(refs):
            for tv, v in enumerate(refs):
                cnt += 1
                case = dict(base, op='ite', g=tg, u=tu, v=tv)

                def body():
                    want = tt.ite(tg, tu, tv, n)
                    r1 = b.ite(g, u, v)
                    r2 = b.apply('ite', g, u, v)
                    require(r1 == refs[want] and r2 == refs[want],
                            'ite.wrong_result', dict(got=den(r1)))
                out.guard(case, body)
    A = _ar.BDD()
    A.declare(*spec['order'])
    abd = Builder(A._bdd, nm)
    fs = [_ar.Function(abd(t), A) for t in range(F + 1)]
    aden = Den(A._bdd, nm)
    for tu, u in enumerate(fs):
        for tv, v in enumerate(fs):
            cnt += 1
            case = dict(base, op='Function operators', u=tu, v=tv)

            def body():
                require(aden((u & v).node) == tu & tv, 'function.and')
                require(aden((u | v).node) == tu | tv, 'function.or')
                require(aden((~u).node) == ~tu & F, 'function.invert')
                require(aden(u.implies(v).node) == tt.c_implies(tu, tv, n),
                        'function.implies')
                require(aden(u.equiv(v).node) == tt.c_equiv(tu, tv, n),
                        'function.equiv')
                require((u <= v) == ((tu & ~tv & F) == 0), 'function.le')
                require((u < v) == ((tu & ~tv & F) == 0 and tu != tv),
                        'function.lt')
                require((u == v) == (tu == tv), 'function.eq')
                require((u != v) == (tu != tv), 'function.ne')
            out.guard(case, body)
    out.count(cnt, max(2, cnt // 4))
    out.sample(dict(base, op='ite', g=1, u=0, v=F))
    out.exhaustive = True
    del fs


def run_ite(spec, out):
    nm = fix.names(3)
    n = 3
    b, refs = _manager(spec, nm)
    den = Den(b, nm)
    base = dict(kind='ite', order=spec['order'], variant=spec['variant'],
                seed=spec['seed'])
    for tg in spec['gs']:
        g = refs[tg]
        via_apply = (tg % 2 == 0)
        for tu, u in enumerate(refs):
            for tv, v in enumerate(refs):
                if via_apply:
                    r = b.apply('ite', g, u, v)
                else:
                    r = b.ite(g, u, v)
                want = tt.ite(tg, tu, tv, n)
                if r != refs[want] or den(r) != want:
                    out.fail('ite.wrong_result',
                             dict(base, g=tg, u=tu, v=tv, via_apply=via_apply),
                             dict(got=den(r), want=want))
            if tu % 64 == 63:
                b.collect_garbage()
        nt = 0 if tg in (0, 255) else 254 * 252
        out.count(256 * 256, nt)
        ok = out.guard(dict(base, g=tg, step='recheck'),
                       lambda: _verify_refs(b, nm, refs, out, base))
        if not ok:
            return
        den = Den(b, nm)
    out.sample(dict(base, g=spec['gs'][0], u=23, v=142,
                    result=tt.ite(spec['gs'][0], 23, 142, n)))
    out.exhaustive = (len(spec['gs']) == 32)


def run_autoref(spec, out):
    import dd.autoref as _ar
    nm = fix.names(3)
    n = 3
    F = tt.full(n)
    bdd = _ar.BDD()
    bdd.declare(*spec['order'])
    m = bdd._bdd
    bd = Builder(m, nm)
    funcs = [_ar.Function(bd(t), bdd) for t in range(256)]
    den = Den(m, nm)
    base = dict(kind='autoref', order=spec['order'])
    for tu, u in enumerate(funcs):
        r = ~u
        if den(r.node) != (~tu & F):
            out.fail('function.invert', dict(base, u=tu))
        for tv, v in enumerate(funcs):
            checks = (
                ('and', den((u & v).node), tu & tv),
                ('or', den((u | v).node), tu | tv),
                ('implies', den(u.implies(v).node), tt.c_implies(tu, tv, n)),
                ('equiv', den(u.equiv(v).node), tt.c_equiv(tu, tv, n)),
                ('le', u <= v, (tu & ~tv & F) == 0),
                ('lt', u < v, (tu & ~tv & F) == 0 and tu != tv),
                ('eq', u == v, tu == tv),
                ('ne', u != v, tu != tv),
            )
            for name, got, want in checks:
                if got != want:
                    out.fail(f'function.{name}', dict(base, u=tu, v=tv),
                             dict(got=got, want=want))
    out.count(256 * 256 * 8 + 256, _nontrivial_pairs(n) * 8)
    out.guard(dict(base, step='recheck'),
              lambda: [require(Den(m, nm)(f.node) == t, 'operand_changed')
                       for t, f in enumerate(funcs)])
    out.sample(dict(base, op='u <= v', u=17, v=51,
                    result=bool((17 & ~51 & F) == 0)))
    out.exhaustive = True
    for f in funcs:
        f.node = None


def run_random(spec, out):
    import hypothesis
    from hypothesis import given, settings, strategies as st, HealthCheck

    @st.composite
    def cases(draw):
        n = draw(st.integers(4, 8))
        F = tt.full(n)
        order = draw(st.permutations(list(fix.names(n))))
        op = draw(st.sampled_from(BIN + ['ite'] + list(tt.UNARY)))
        # mix of arbitrary tables and structured ones (few variables)
        tabs = []
        for _ in range(3):
            if draw(st.booleans()):
                tabs.append(draw(st.integers(0, F)))
            else:
                j, k = draw(st.integers(0, n - 1)), draw(st.integers(0, n - 1))
                a, c = tt.var(n, j), tt.var(n, k)
                tabs.append(draw(st.sampled_from(
                    [a & c, a | c, a ^ c, a, ~a & F, a & ~c & F])))
        warm = draw(st.booleans())
        return dict(kind='random', n=n, order=list(order), op=op,
                    tabs=tabs, warm=warm)

    @hypothesis.seed(spec['seed'])
    @settings(max_examples=spec['examples'], deadline=None, database=None,
              suppress_health_check=list(HealthCheck),
              phases=[hypothesis.Phase.generate])
    @given(cases())
    def test(case):
        def body():
            nontrivial = check_random_case(case)
            out.case(nontrivial, case)
            out.label(f'n={case["n"]}')
            out.sample(case)
        if not out.guard(case, body):
            out.case(False, case)
    test()


def check_random_case(case):
    n = case['n']
    nm = fix.names(n)
    F = tt.full(n)
    b = fix.new_bdd(case['order'])
    bd = Builder(b, nm)
    tabs = case['tabs']
    refs = [bd(t) for t in tabs]
    for u in refs:
        b.incref(u)
    if case['warm']:
        b.apply('xor', refs[0], refs[1])
        b.apply('and', refs[1], refs[2])
    op = case['op']
    den = Den(b, nm)
    if op in tt.UNARY:
        r = b.apply(op, refs[0])
        want = ~tabs[0] & F
    elif op == 'ite':
        r = b.ite(*refs)
        want = tt.ite(tabs[0], tabs[1], tabs[2], n)
    else:
        r = b.apply(op, refs[0], refs[1])
        want = tt.BINARY[op](tabs[0], tabs[1], n)
    require(den(r) == want, 'random.wrong_result',
            dict(got=den(r), want=want))
    den = Den(b, nm)
    for t, u in zip(tabs, refs):
        require(den(u) == t, 'operand_changed')
    a, c = tabs[0], tabs[1]
    return (a not in (0, F) and c not in (0, F)
            and a != c and a != (~c & F))


def replay_case(case):
    kind = case['kind']
    n = 3
    nm = fix.names(3)
    F = tt.full(n)
    if kind == 'random':
        check_random_case(case)
        return
    if kind == 'autoref':
        import dd.autoref as _ar
        bdd = _ar.BDD()
        bdd.declare(*case['order'])
        bd = Builder(bdd._bdd, nm)
        den = Den(bdd._bdd, nm)
        u = _ar.Function(bd(case['u']), bdd)
        v = _ar.Function(bd(case.get('v', 0)), bdd)
        tu, tv = case['u'], case.get('v', 0)
        require(den((~u).node) == (~tu & F), 'function.invert')
        require(den((u & v).node) == tu & tv, 'function.and')
        require(den((u | v).node) == tu | tv, 'function.or')
        require(den(u.implies(v).node) == tt.c_implies(tu, tv, n),
                'function.implies')
        require(den(u.equiv(v).node) == tt.c_equiv(tu, tv, n),
                'function.equiv')
        require((u <= v) == ((tu & ~tv & F) == 0), 'function.le')
        require((u < v) == ((tu & ~tv & F) == 0 and tu != tv), 'function.lt')
        require((u == v) == (tu == tv), 'function.eq')
        require((u != v) == (tu != tv), 'function.ne')
        return
    spec = dict(order=case['order'], variant=case.get('variant', 'fresh'),
                seed=case.get('seed', 1))
    b, refs = _manager(spec, nm)
    den = Den(b, nm)
    if kind == 'pairs' and 'op' in case and 'u' in case:
        op = case['op']
        if op in tt.UNARY:
            r = b.apply(op, refs[case['u']])
            require(den(r) == (~case['u'] & F), 'unary.wrong_result')
        else:
            r = b.apply(op, refs[case['u']], refs[case['v']])
            require(den(r) == tt.BINARY[op](case['u'], case['v'], n),
                    'binary.wrong_result')
    elif kind == 'ite' and 'u' in case:
        if case.get('via_apply'):
            r = b.apply('ite', refs[case['g']], refs[case['u']],
                        refs[case['v']])
        else:
            r = b.ite(refs[case['g']], refs[case['u']], refs[case['v']])
        require(den(r) == tt.ite(case['g'], case['u'], case['v'], n),
                'ite.wrong_result')
    else:
        # failure of a re-check step: rerun the whole shard
        raise Violation('replay.needs_full_shard', case)


def replay_into(case, out):
    if case.get('kind') == 'sandwich':
        return fix.run_sandwich({k: case[k] for k in (
            'kind', 'perturbation', 'pos', 'order', 'seed')}, out,
            _sandwich_calls)
    if case.get('kind') == 'history':
        return H.replay_into(case, out)
    if case.get('step') == 'recheck':
        spec = dict(case)
        spec.pop('step')
        if spec['kind'] == 'ite':
            spec['gs'] = [spec.pop('g')]
        run(spec, out)
        return
    out.guard(case, lambda: replay_case(case))
    out.count(1, 0)


def run(spec, out):
    if spec['kind'] == 'sandwich':
        return fix.run_sandwich(spec, out, _sandwich_calls)
    if spec['kind'] == 'history':
        return H.run_random(
            spec, out, HIST_ALPHA_AR if spec.get('autoref') else HIST_ALPHA,
            _hist_nontrivial)
    missing = set(__import__('dd._abc')._abc.BINARY_OPERATOR_SYMBOLS) - \
        set(tt.BINARY) - set(tt.QUANT)
    if missing:
        from ..env import HarnessError
        raise HarnessError(f'aliases without oracle entry: {missing}')
    dict(pairs=run_pairs, ite=run_ite, autoref=run_autoref,
         random=run_random, small=run_small)[spec['kind']](spec, out)
