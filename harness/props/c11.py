"""C11 — copying between managers preserves the function by variable
name."""
import itertools
import random

from .. import tt, fix, inv
from ..denote import Den, Builder
from ..viol import Violation, require

ID = 'C11'
LEVEL = 'exploration'
RULE = (
    'H: two-manager histories: a peer manager of the same kind (other order, possibly fewer variables, own reorderings / declarations / collections) and repeated copies both ways by BDD.copy / copy_bdd / copy_bdds_from; a copy is refused exactly when the target lacks a support variable; copy_vars either way must reproduce names and levels or be refused as a model of the add_var sequence predicts. '
    'S: copies into a target with dynamic reordering enabled, the trigger placed at every node-creation request (as in C09). '
    'E: n<=3 every function x every (source order, target order) pair; n=4 '
    'every function x seeded order pairs (3 quick / 8 thorough); forms '
    'dd.bdd.BDD.copy, dd.bdd.copy_bdd, dd.autoref.BDD.copy, '
    'dd.autoref.copy_bdd, dd._copy.copy_bdd, dd._copy.copy_bdds_from '
    '(shared memo over several roots). R: Hypothesis targets with extra '
    'variables, pre-existing nodes and a reordering history; copy_vars from '
    'random orders into empty targets. Oracle: same truth table by variable '
    'name; the result equals the reference obtained by building the function '
    'directly in the target (canonicity across routes); target passes the '
    'independent invariants with exact counts; snapshot of the source '
    '(_succ, _ref, vars) identical before and after; copy_vars: names and '
    'levels equal. Non-trivial: the two orders differ on the support of the '
    'function; distinct = (form, orders, function).')
ASSUMPTIONS = [
    'every variable in the support of the copied function is declared in '
    'the target (callers declare them first)',
]


HIST_ALPHA = {'xcopy': 16, 'peer': 12, 'xcopy_vars': 3, 'build': 8,
              'apply': 3, 'drop': 5, 'gc': 3, 'swap': 4, 'sift': 1,
              'reorder_to': 3, 'declare': 3, 'undeclare': 1, 'churn': 1}


def _hist_nontrivial(w):
    return 'xcopy.other_order' in w.nontrivial


def plan(tier, seed):
    specs = []
    # two managers with independent histories (reordered, extended,
    # collected) between repeated copies in both directions
    cfgs = [dict(kind='bdd', nmax=4, init_vars=3),
            dict(kind='bdd', nmax=5, init_vars=4),
            dict(kind='autoref', nmax=4, init_vars=3),
            dict(kind='autoref', nmax=5, init_vars=3),
            dict(kind='autoref', nmax=5, init_vars=4, reordering=True,
                 reorder_starts=8),
            dict(kind='bdd', nmax=10, init_vars=8, semantic=False)]
    for s_ in range(12 if tier == 'thorough' else 4):
        specs.append(dict(kind='history', seed=seed * 1000 + 900 + s_,
                          cfgs=cfgs,
                          examples=1200 if tier == 'thorough' else 250,
                          min_len=8, max_len=40))
    # targets with dynamic reordering enabled: every position of the
    # trigger during the copy (machinery of C09)
    for s_ in range(16 if tier == 'thorough' else 2):
        specs.append(dict(kind='schedule', seed=seed * 100 + 80 + s_,
                          only=['copy', 'ar_copy_bdd', '_copy_copy_bdd'],
                          examples=400 if tier == 'thorough' else 36))
    for n in (1, 2, 3):
        for so in fix.orders(n):
            specs.append(dict(kind='pairs', n=n, source=so,
                              targets=fix.orders(n), seed=seed,
                              reordered_source=(so != sorted(so))))
    k = 24 if tier == 'thorough' else 3
    r = random.Random(f'c11:{seed}')
    o4 = fix.orders(4)
    for _ in range(k):
        so, to = r.sample(o4, 2)
        specs.append(dict(kind='pairs', n=4, source=so, targets=[to],
                          seed=seed))
    for s in range(32 if tier == 'thorough' else 3):
        specs.append(dict(kind='random', seed=seed * 100 + s,
                          examples=2000 if tier == 'thorough' else 200))
    return specs


def snapshot(b):
    return (dict(b._succ), dict(b._ref), dict(b.vars))


def differs_on_support(t, n, nm, so, to):
    sup = [nm[j] for j in tt.support(t, n)]
    a = [x for x in so if x in sup]
    c = [x for x in to if x in sup]
    return a != c


def run_pairs(spec, out):
    import dd.bdd as _bdd
    import dd.autoref as _ar
    import dd._copy as _copy
    n = spec['n']
    nm = fix.names(n)
    F = tt.full(n)
    so = spec['source']
    base = dict(kind='pairs', n=n, source=so, seed=spec['seed'],
                reordered_source=spec.get('reordered_source', False))
    # source managers (dd.bdd and dd.autoref views of the same content)
    SA = _ar.BDD()
    if spec.get('reordered_source'):
        SA.declare(*sorted(so))
        SA.reorder({x: l for l, x in enumerate(so)})
    else:
        SA.declare(*so)
    src = SA._bdd
    sbd = Builder(src, nm)
    srefs = [sbd(t) for t in range(F + 1)]
    sfuncs = [_ar.Function(u, SA) for u in srefs]
    snap = snapshot(src)
    forms = ['BDD.copy', 'bdd.copy_bdd', 'autoref.BDD.copy',
             'autoref.copy_bdd', '_copy.copy_bdd', '_copy.copy_bdds_from']
    for to in spec['targets']:
        for fi, form in enumerate(forms):
            if n == 4 and fi not in (0, 3, 5):
                continue
            TA = _ar.BDD()
            TA.declare(*to)
            tgt = TA._bdd
            tbd = Builder(tgt, nm)
            tden = Den(tgt, nm)
            nt = 0
            held = []
            case0 = dict(base, target=to, form=form)
            if form == '_copy.copy_bdds_from':
                def body():
                    rs = _copy.copy_bdds_from(sfuncs, TA)
                    held.extend(rs)
                    for t, r in enumerate(rs):
                        require(tden(r.node) == t, 'copy.wrong_function',
                                dict(t=t, got=tden(r.node)))
                        require(r.node == tbd(t), 'copy.not_canonical',
                                dict(t=t))
                out.guard(case0, body)
            else:
                for t in range(F + 1):
                    case = dict(case0, t=t)

                    def body():
                        if form == 'BDD.copy':
                            r = src.copy(srefs[t], tgt)
                        elif form == 'bdd.copy_bdd':
                            r = _bdd.copy_bdd(srefs[t], src, tgt)
                        elif form == 'autoref.BDD.copy':
                            r = SA.copy(sfuncs[t], TA)
                        elif form == 'autoref.copy_bdd':
                            r = _ar.copy_bdd(sfuncs[t], TA)
                        else:
                            r = _copy.copy_bdd(sfuncs[t], TA)
                        if not isinstance(r, int):
                            held.append(r)
                            r = r.node
                        require(tden(r) == t, 'copy.wrong_function',
                                dict(t=t, got=tden(r)))
                        require(r == tbd(t), 'copy.not_canonical',
                                dict(t=t, r=r))
                    out.guard(case, body)
            nt = sum(1 for t in range(F + 1)
                     if differs_on_support(t, n, nm, so, to))
            out.count(F + 1, nt)
            # target invariants with exact counts
            led = {}
            for f in {id(f): f for f in held}.values():
                led[abs(f.node)] = led.get(abs(f.node), 0) + 1
            out.guard(dict(case0, step='target-invariants'),
                      lambda: inv.check_manager(
                          tgt, led, nm, cache=True, semantic=(n <= 3)))
            out.guard(dict(case0, step='source-untouched'),
                      lambda: require(snapshot(src) == snap,
                                      'copy.source_changed'))
            del held
    out.sample(dict(base, target=spec['targets'][0], form='BDD.copy',
                    t=F // 3))
    out.exhaustive = True


def check_random_case(case):
    import dd.bdd as _bdd
    import dd.autoref as _ar
    import dd._copy as _copy
    n = case['n']
    nm = fix.names(n)
    F = tt.full(n)
    so, to = case['source'], case['target']
    if case['mode'] == 'copy_vars':
        if case['src_history']:
            # declaration order differs from level order: explicit levels
            # given in another order, or reordered after declaring
            if case['tgt_history']:
                lv = {x: l for l, x in enumerate(so)}
                S = _ar.BDD({x: lv[x] for x in sorted(so)})
            else:
                S = _ar.BDD()
                S.declare(*sorted(so))
                S.reorder({x: l for l, x in enumerate(so)})
        else:
            S = _ar.BDD()
            S.declare(*so)
        T = _ar.BDD()
        if case['api']:
            _ar.copy_vars(S, T)
        else:
            _copy.copy_vars(S._bdd, T._bdd)
        require(dict(T.vars) == dict(S.vars) and
                dict(T._bdd._level_to_var) == dict(S._bdd._level_to_var),
                'copy_vars.levels_differ',
                dict(source=dict(S.vars), target=dict(T.vars)))
        inv.check_order(T._bdd)
        return so != sorted(so)
    S = _ar.BDD()
    if case['src_history']:
        # declaration order differs from the level order `so`
        S.declare(*sorted(so))
        S.reorder({x: l for l, x in enumerate(so)})
    else:
        S.declare(*so)
    sbd = Builder(S._bdd, nm)
    roots_t = case['roots']
    sf = [_ar.Function(sbd(t), S) for t in roots_t]
    if case['src_history']:
        S.collect_garbage()
        S.reorder()
        S.reorder({x: l for l, x in enumerate(so)})
    T = _ar.BDD()
    T.declare(*to)          # `to` may contain extra variables
    tnm = fix.names(len(to))
    tn = len(tnm)
    tbd = Builder(T._bdd, tnm)
    pre = [_ar.Function(tbd(t & tt.full(tn)), T) for t in case['pre']]
    if case['tgt_history'] and len(to) >= 2:
        T._bdd.swap(0, 1)
        T._bdd.swap(0, 1)
        T.collect_garbage()
    snap = snapshot(S._bdd)
    if case['form'] == 0:
        rs = [S.copy(f, T) for f in sf]
    elif case['form'] == 1:
        rs = [_ar.copy_bdd(f, T) for f in sf]
    elif case['form'] == 2:
        roots_arg = sf
        if case['tgt_history']:
            roots_arg = (f for f in sf)       # any iterable of roots
        elif case['src_history']:
            roots_arg = iter(sf)
        rs = _copy.copy_bdds_from(roots_arg, T)
    else:
        rs = [_ar.Function(_bdd.copy_bdd(f.node, S._bdd, T._bdd), T)
              for f in sf]
    tden = Den(T._bdd, tnm)
    sden = Den(S._bdd, tnm)
    for t, r, f in zip(roots_t, rs, sf):
        want = sden(f.node)      # table over the target's names universe
        require(tden(r.node) == want, 'copy.wrong_function',
                dict(t=t, got=tden(r.node), want=want))
        require(r.node == Builder(T._bdd, tnm)(want), 'copy.not_canonical')
    led = {}
    # copy_bdds_from may hand out one Function object for equal roots
    for f in {id(f): f for f in list(rs) + pre}.values():
        led[abs(f.node)] = led.get(abs(f.node), 0) + 1
    inv.check_manager(T._bdd, led, tnm, cache=True, semantic=(tn <= 5))
    require(snapshot(S._bdd) == snap, 'copy.source_changed')
    for p, t in zip(pre, case['pre']):
        require(tden(p.node) == t & tt.full(tn), 'copy.target_node_changed')
    return any(differs_on_support(t, n, nm, so,
                                  [x for x in to if x in so])
               for t in roots_t)


def run_random(spec, out):
    import hypothesis
    from hypothesis import given, settings, strategies as st, HealthCheck

    @st.composite
    def cases(draw):
        n = draw(st.integers(2, 5))
        F = tt.full(n)
        so = draw(st.permutations(list(fix.names(n))))
        mode = draw(st.sampled_from(['copy'] * 5 + ['copy_vars']))
        extra = draw(st.integers(0, 6 - n)) if n < 6 else 0
        to = draw(st.permutations(list(fix.names(n + extra))))
        roots = draw(st.lists(st.integers(0, F), min_size=1, max_size=4))
        pre = draw(st.lists(st.integers(0, tt.full(n + extra)), max_size=3))
        return dict(kind='random', n=n, source=list(so), target=list(to),
                    mode=mode, api=draw(st.booleans()), roots=roots,
                    pre=pre, form=draw(st.integers(0, 3)),
                    src_history=draw(st.booleans()),
                    tgt_history=draw(st.booleans()))

    @hypothesis.seed(spec['seed'])
    @settings(max_examples=spec['examples'], deadline=None, database=None,
              suppress_health_check=list(HealthCheck),
              phases=[hypothesis.Phase.generate])
    @given(cases())
    def test(case):
        def body():
            out.case(check_random_case(case), case)
            out.label(case['mode'])
            out.sample(case)
        if not out.guard(case, body):
            out.case(False, case)
    test()


def run(spec, out):
    if spec['kind'] == 'history':
        from .. import histprop as H_
        return H_.run_random(spec, out, HIST_ALPHA, _hist_nontrivial,
                             shutdown=True)
    if spec['kind'] == 'schedule':
        from . import c09
        return c09.run_schedule(spec, out)
    dict(pairs=run_pairs, random=run_random)[spec['kind']](spec, out)


def replay_into(case, out):
    if case['kind'] == 'history':
        from .. import histprop as H_
        return H_.replay_into(case, out)
    if case['kind'] == 'schedule':
        from . import c09
        return c09.replay_into(case, out)
    if case['kind'] == 'random':
        out.guard(case, lambda: check_random_case(case))
        out.count(1, 0)
    else:
        run_pairs(dict(kind='pairs', n=case['n'], source=case['source'],
                       targets=[case['target']], seed=case['seed'],
                       reordered_source=case.get('reordered_source')), out)
