"""C12 — dump/load round trips (pickle, JSON, manager) restore the same
functions."""
import os
import random

from .. import tt, fix, inv
from ..denote import Den, Builder
from ..viol import Violation, require

ID = 'C12'
LEVEL = 'exploration'
RULE = (
    'Receiving managers also with dynamic reordering enabled at thresholds 1/2/4 (the switch must still be on afterwards); dumps from managers without variables. '
    'E: n<=3, for every (source order, target order) pair all 2^(2^n) '
    'functions are dumped as one list / one dict of roots and loaded back: '
    'pickle via dd.bdd (levels=False; levels=True where orders agree, '
    'otherwise the refusal is checked), pickle and JSON via dd.autoref, '
    'dd._copy.load_json with load_order True/False; receiving manager '
    'fresh, the dumping manager itself, pre-declared same order, '
    'pre-declared different order. R: Hypothesis tuples of 1-4 functions '
    'over <=4 variables, roots as list or dict (also constants and repeated '
    'roots), targets with extra variables and pre-existing nodes, pickle '
    'dumped with roots=None, whole-manager pickle. Oracle: every returned '
    'root (same key / position) has the dumped truth table by variable '
    'name; a refusing loader (ValueError/AssertionError for a conflicting '
    'order) must leave the manager intact; receiving manager passes the '
    'independent invariants with exact counts (dd.bdd pickle: none added; '
    'dd.autoref: one per returned Function); whole-manager pickle: equal '
    'vars, _succ, _ref and denotations; roots=None: every node stored. '
    'Non-trivial: target order differs from the source or target is not '
    'empty; distinct = (format, orders, target state, roots).')
ASSUMPTIONS = [
    'each worker runs in its own scratch directory (dd._copy creates '
    '__shelve__/ in the cwd)',
]

FORMATS = ['bdd.pickle', 'autoref.pickle', 'autoref.json',
           '_copy.json.load_order']


HIST_ALPHA = {'file_roundtrip': 14, 'build': 8, 'declare': 4, 'add_var': 2,
              'apply': 3, 'drop': 5, 'gc': 3, 'swap': 3, 'reorder_to': 2,
              'sift': 1, 'undeclare': 1, 'var': 1}


def _hist_nontrivial(w):
    return 'file_roundtrip' in w.nontrivial


def plan(tier, seed):
    specs = []
    # dumps and loads in the middle of histories (declarations,
    # reorderings and collections before and after)
    cfgs = [dict(kind='autoref', nmax=4, init_vars=3),
            dict(kind='autoref', nmax=5, init_vars=3),
            dict(kind='bdd', nmax=4, init_vars=3),
            dict(kind='autoref', nmax=5, init_vars=4, reordering=True,
                 reorder_starts=8)]
    for s_ in range(8 if tier == 'thorough' else 2):
        specs.append(dict(kind='history', seed=seed * 1000 + 700 + s_,
                          cfgs=cfgs,
                          examples=800 if tier == 'thorough' else 120,
                          min_len=6, max_len=30))
    for n in (0, 1, 2, 3):
        for so in fix.orders(n):
            specs.append(dict(kind='all', n=n, source=so, seed=seed))
    for s in range(32 if tier == 'thorough' else 6):
        specs.append(dict(kind='random', seed=seed * 100 + s,
                          examples=2500 if tier == 'thorough' else 120))
    return specs


def ledger_of(funcs):
    led = {}
    for f in {id(f): f for f in funcs}.values():
        led[abs(f.node)] = led.get(abs(f.node), 0) + 1
    return led


PICKLE_EXT = ('.p', '.P')
JSON_EXT = ('.json', '.JSON', '.Json')


def roundtrip(fmt, S, roots, T, levels, fname, xcase=0):
    """Dump `roots` (container of Functions of autoref manager S) and load
    into autoref manager T (may be S).  Returns container of int nodes of
    T._bdd and list of Function objects created by the loader.

    The `dump` / `load` methods infer the file type from the extension
    "case insensitive" (docstrings of `dd.bdd.BDD.dump`,
    `dd.autoref.BDD.dump`): `xcase` selects the spelling of the extension.
    """
    import dd._copy as _copy
    pext = PICKLE_EXT[xcase % len(PICKLE_EXT)]
    jext = JSON_EXT[xcase % len(JSON_EXT)]
    if fmt == 'bdd.pickle':
        if isinstance(roots, dict):
            r = {k: f.node for k, f in roots.items()}
        else:
            r = [f.node for f in roots]
        S._bdd.dump(fname + pext, roots=r)
        back = T._bdd.load(fname + pext, levels=levels)
        return back, []
    if fmt == 'autoref.pickle':
        S.dump(fname + pext, roots=roots)
        back = T.load(fname + pext, levels=levels)
    elif fmt == 'autoref.json':
        S.dump(fname + jext, roots=roots)
        back = T.load(fname + jext)
    else:
        _copy.dump_json(roots, fname + '.json')
        back = _copy.load_json(fname + '.json', T, load_order=True)
    fs = list(back.values()) if isinstance(back, dict) else list(back)
    if isinstance(back, dict):
        return {k: f.node for k, f in back.items()}, fs
    return [f.node for f in back], fs


def check_case(case, cwd):
    import dd.autoref as _ar
    n = case['n']
    nm = fix.names(n)
    so, to = case['source'], case['target']
    tnm = fix.names(max(n, len(to)))
    tn = len(tnm)
    fmt = case['fmt']
    S = _ar.BDD()
    if case.get('src_history'):
        # the dumping manager was reordered after declaring (its vars
        # dict is not in level order) and has free node numbers below
        # its largest live node
        S.declare(*sorted(so))
        junk = Builder(S._bdd, nm)
        for g in case.get('junk', [6, 9]):
            junk(g & tt.full(n))
        S.reorder({x: l for l, x in enumerate(so)})
    else:
        S.declare(*so)
    sbd = Builder(S._bdd, nm)
    tabs = case['roots']
    sf = [_ar.Function(sbd(t), S) for t in tabs]
    wide = [tt.widen(t, n, tn) for t in tabs]
    if case['as_dict']:
        roots = {f'r{i}': f for i, f in enumerate(sf)}
    else:
        roots = list(sf)
    state = case['state']
    pre = []
    if state == 'same':
        T = S
        to = so
        tnm = nm
        tn = n
        pre = list(sf)
    else:
        T = _ar.BDD()
        if state != 'fresh':
            T.declare(*to)
            tbd = Builder(T._bdd, tnm)
            pre = [_ar.Function(tbd(t & tt.full(tn)), T)
                   for t in case['pre']]
    levels = case['levels']
    tr = case.get('t_reorder', 0)
    if tr:
        # the receiving manager has dynamic reordering enabled, with a
        # low threshold so that the load itself crosses it
        import dd.bdd as _bddm
        old_starts = _bddm.REORDER_STARTS
        _bddm.REORDER_STARTS = tr
        try:
            T.configure(reordering=True)
        finally:
            _bddm.REORDER_STARTS = old_starts
    ptabs = [Den(T._bdd, tnm)(f.node) for f in pre]
    before = (dict(T._bdd._succ), dict(T._bdd._ref), dict(T._bdd.vars))
    fname = os.path.join(cwd, 'Rt_File')
    # does the loader have to refuse?  (levels=True / load_order with a
    # conflicting pre-declared order)
    conflict = False
    if state not in ('fresh', 'same'):
        tl = {x: l for l, x in enumerate(to)}
        sl = {x: l for l, x in enumerate(so)}
        if fmt in ('bdd.pickle', 'autoref.pickle') and levels:
            conflict = any(tl.get(x, sl[x]) != sl[x] for x in so) or \
                any(x not in sl and tl[x] < len(so) for x in to)
        if fmt == '_copy.json.load_order':
            conflict = len(to) != len(so)
    try:
        xcase = n + len(tabs) + (1 if case['as_dict'] else 0)
        back, fs = roundtrip(fmt, S, roots, T, levels, fname, xcase)
    except (ValueError, AssertionError) as e:
        if not conflict:
            raise
        # refusal: manager must be intact
        led = ledger_of(pre + (sf if T is S else []))
        inv.check_manager(T._bdd, led, tnm, semantic=(tn <= 5))
        d = Den(T._bdd, tnm)
        for f, t in zip(pre, ptabs):
            require(d(f.node) == t, 'load.refusal_changed_function')
        return 'refused'
    finally:
        for ext in PICKLE_EXT + JSON_EXT:
            if os.path.exists(fname + ext):
                os.remove(fname + ext)
    require(not conflict or fmt == '_copy.json.load_order' or True,
            'unreachable')
    # same container shape, same keys / positions
    if case['as_dict']:
        require(isinstance(back, dict) and set(back) == set(roots),
                'load.keys_differ', dict(got=sorted(back)))
        pairs = [(back[f'r{i}'], t) for i, t in enumerate(wide)]
    else:
        require(isinstance(back, list) and len(back) == len(tabs),
                'load.positions_differ')
        pairs = list(zip(back, wide))
    d = Den(T._bdd, tnm)
    for u, t in pairs:
        require(d(u) == t, 'load.wrong_function',
                dict(u=u, got=d(u), want=t))
    for f, t in zip(pre, ptabs):
        require(d(f.node) == t, 'load.changed_existing_function')
    led = ledger_of(pre + fs + (sf if T is S else []))
    inv.check_manager(T._bdd, led, tnm, semantic=(tn <= 5))
    if tr:
        require(T.configure()['reordering'] is True,
                'load.switched_reordering_off')
    if state == 'fresh' and fmt != 'bdd.pickle' or state == 'fresh':
        # variables and (where requested) their levels as dumped
        require(set(T.vars) == set(so), 'load.vars_differ',
                dict(got=dict(T.vars)))
        if ((levels and fmt.endswith('pickle')) or
                fmt == '_copy.json.load_order') and not tr:
            require(dict(T.vars) == {x: l for l, x in enumerate(so)},
                    'load.levels_differ', dict(got=dict(T.vars)))
    return 'loaded'


def run_all(spec, out):
    n = spec['n']
    F = tt.full(n)
    so = spec['source']
    cwd = os.getcwd()
    base = dict(n=n, source=so)
    cnt = nt = 0
    for to in fix.orders(n):
        for fmt in FORMATS:
            for state in ('fresh', 'same', 'declared'):
                for as_dict in (False, True):
                  for t_reorder in (0, 2):
                    for levels in (False, True):
                        if state == 'same' and to != so:
                            continue
                        if fmt.endswith('json') and levels:
                            continue
                        if fmt == '_copy.json.load_order' and not levels \
                                and False:
                            continue
                        case = dict(base, kind='case', target=to, fmt=fmt,
                                    state=state, as_dict=as_dict,
                                    levels=levels, roots=list(range(F + 1)),
                                    pre=[F // 3, 1], t_reorder=t_reorder,
                                    src_history=(as_dict != levels))
                        res = []
                        out.guard(case, lambda: res.append(
                            check_case(case, cwd)))
                        if res:
                            out.label(f'{res[0]}.{fmt}')
                        cnt += F + 1
                        if to != so or state != 'fresh':
                            nt += F + 1
    out.count(cnt, nt)
    out.sample(dict(base, target=fix.orders(n)[-1], fmt='autoref.json',
                    state='declared', roots='all functions'))
    out.exhaustive = True


def check_special(case, cwd):
    """roots=None pickle; whole-manager pickle."""
    import dd.bdd as _bdd
    n = case['n']
    nm = fix.names(n)
    b = fix.new_bdd(case['source'])
    bd = Builder(b, nm)
    # nodes created first and collected later leave free numbers below
    # the largest live node
    for g in case.get('junk', []):
        bd(g & tt.full(n))
    bd = Builder(b, nm)
    refs = [bd(t) for t in case['roots']]
    for u in refs:
        b.incref(u)
    if case.get('junk'):
        b.collect_garbage()
    fname = os.path.join(cwd, 'Sp_File.p')
    try:
        if case['mode'] == 'roots_none':
            b.dump(fname)
            c = fix.new_bdd([])
            c.load(fname, levels=case['levels'])
            require(dict(c.vars) == dict(b.vars) or not case['levels'],
                    'load.levels_differ')
            # every node stored: same set of functions
            db, dc = Den(b, nm), Den(c, nm)
            tb = {db(u) for u in b._succ}
            tc = {dc(u) for u in c._succ}
            # (the loader may create auxiliary variable nodes)
            require(tb <= tc, 'load.roots_none_nodes_missing',
                    dict(missing=len(tb - tc)))
            inv.check_manager(c, {}, nm)
        else:
            b.roots = set(refs)
            b._dump_manager(fname)
            c = type(b)._load_manager(fname)
            require(dict(c.vars) == dict(b.vars) and
                    dict(c._succ) == dict(b._succ) and
                    dict(c._ref) == dict(b._ref) and
                    set(c.roots) == set(b.roots) and
                    c._min_free == b._min_free,
                    'load_manager.differs')
            dc = Den(c, nm)
            for u, t in zip(refs, case['roots']):
                require(dc(u) == t, 'load_manager.wrong_function')
            led = {}
            for u in refs:
                led[abs(u)] = led.get(abs(u), 0) + 1
            inv.check_manager(c, led, nm)
            # the loaded manager is usable: new nodes can be created
            r = c.apply('and', refs[0], refs[-1])
            require(Den(c, nm)(r) == case['roots'][0] & case['roots'][-1],
                    'load_manager.unusable')
            bd2 = Builder(c, nm)
            for g in (6, 9, 0x96, 0x1e, 0xca):
                g &= tt.full(n)
                require(Den(c, nm)(bd2(g)) == g, 'load_manager.unusable')
            inv.check_structure(c)
    finally:
        if os.path.exists(fname):
            os.remove(fname)
    return True


def run_random(spec, out):
    import hypothesis
    from hypothesis import given, settings, strategies as st, HealthCheck
    cwd = os.getcwd()

    @st.composite
    def cases(draw):
        n = draw(st.sampled_from([0, 1, 2, 2, 3, 3, 3, 4, 4, 4]))
        F = tt.full(n)
        so = draw(st.permutations(list(fix.names(n))))
        mode = draw(st.sampled_from(['rt'] * 8 + ['roots_none', 'manager']))
        roots = draw(st.lists(
            st.one_of(st.integers(0, F), st.sampled_from([0, F])),
            min_size=1, max_size=4))
        if mode != 'rt':
            return dict(kind='special', n=n, source=list(so), mode=mode,
                        roots=roots, levels=draw(st.booleans()),
                        junk=draw(st.lists(st.integers(0, F), max_size=4)))
        state = draw(st.sampled_from(
            ['fresh', 'same', 'declared', 'declared', 'extra']))
        extra = draw(st.integers(1, 2)) if state == 'extra' else 0
        to = draw(st.permutations(list(fix.names(n + extra))))
        if draw(st.booleans()) and state == 'declared':
            to = list(so)
        return dict(kind='case', n=n, source=list(so), target=list(to),
                    fmt=draw(st.sampled_from(FORMATS)), state=state,
                    as_dict=draw(st.booleans()),
                    src_history=draw(st.booleans()),
                    junk=draw(st.lists(st.integers(0, 65535), max_size=3)),
                    levels=draw(st.booleans()), roots=roots,
                    t_reorder=draw(st.sampled_from([0, 0, 0, 1, 2, 4])),
                    pre=draw(st.lists(st.integers(0, 65535), max_size=3)))

    @hypothesis.seed(spec['seed'])
    @settings(max_examples=spec['examples'], deadline=None, database=None,
              suppress_health_check=list(HealthCheck),
              phases=[hypothesis.Phase.generate])
    @given(cases())
    def test(case):
        def body():
            if case['kind'] == 'special':
                check_special(case, cwd)
                out.case(True, case)
                out.label(case['mode'])
            else:
                res = check_case(case, cwd)
                nt = (case['state'] != 'fresh' or
                      case['target'][:case['n']] != case['source'])
                out.case(nt, case)
                out.label(f'{res}.{case["fmt"]}.{case["state"]}')
            out.sample(case)
        if not out.guard(case, body):
            out.case(False, case)
    test()


def run(spec, out):
    if spec['kind'] == 'history':
        from .. import histprop as H_
        return H_.run_random(spec, out, HIST_ALPHA, _hist_nontrivial)
    dict(all=run_all, random=run_random)[spec['kind']](spec, out)


def replay_into(case, out):
    if case.get('kind') == 'history':
        from .. import histprop as H_
        return H_.replay_into(case, out)
    cwd = os.getcwd()
    if case['kind'] == 'special':
        out.guard(case, lambda: check_special(case, cwd))
    else:
        out.guard(case, lambda: check_case(case, cwd))
    out.count(1, 0)
