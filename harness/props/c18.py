"""C18 — structural views (low/high, descendants, sizes, graph exports)
are faithful."""
import os
import random
import re

from .. import tt, fix
from ..denote import Den, Builder, reachable
from ..viol import Violation, require

ID = 'C18'
LEVEL = 'exploration'
RULE = (
    'H: histories (dd.autoref and dd.bdd, reorderings, dynamic reordering) in which the views are taken of held references, and handles created before a reordering are traversed again after it (var == var_at_level(level), support, len, dag_size). '
    'Sandwich: succ / descendants / to_nx / DOT views of functions in a manager with an unused variable, before and after one perturbation (undeclare / declare / swap / collect / reorder / sift). Roots are passed as set, list, iterator or generator. '
    'E: every function of n<=4 variables (n<=3 all orders; n=4 seeded '
    'orders, 2 quick / 4 thorough), regular and complemented roots; R: '
    'seeded sets of 1-4 roots. Oracle: a user-style recursion over '
    'Function.var/.low/.high/.negated (and over bdd.succ(u), autoref '
    'BDD.succ) reproduces the truth table; descendants(roots), len(u), '
    'dag_size equal the independently computed reachable set; len(bdd) '
    'equals the number of stored nodes and, after a collection, '
    '|reachable(held)|; to_nx(bdd, roots): node set == reachable set and '
    'evaluating the graph by level / value / complement attributes gives '
    'the table; dump(.dot, roots): the text is read by an independent '
    'reader of the emitted DOT subset, its BDD nodes (labels var-id) == '
    'reachable set, every node in the rank labelled with its level, evaluation under the documented legend (solid = then, '
    'dashed = else, -1 = complement, ref layer = roots with their sign) '
    'gives the table. Non-trivial: function depends on >= 2 variables; '
    'distinct = (view, order, function / root set).')
ASSUMPTIONS = [
    'Graphviz rendering (pdf/png/svg) is not evaluated, only the DOT text',
    'DOT legend as documented in doc.md section Plotting',
]


def _sandwich_calls(b, refs, nm, den):
    import dd.autoref as _ar
    cwd = os.getcwd()
    n = 3

    class _A:
        pass
    for t in range(0, 256, 3):
        def call(t=t):
            # the views of the wrapped manager after the perturbation
            u = refs[t]
            names5 = tuple(nm) + ('zz', 'zz_new')
            i, v, w = b.succ(u)
            if abs(u) != 1:
                x = b.var_at_level(i)
                require(x in nm, 'succ.level_names_wrong_variable',
                        dict(level=i, var=x))
                j = nm.index(x)
                reg = t if u > 0 else (~t & 255)
                d = Den(b, names5)
                require(d(v) == tt.widen(tt.cof(reg, n, j, 0), n, 5) and
                        d(w) == tt.widen(tt.cof(reg, n, j, 1), n, 5),
                        'succ.wrong_cofactors')
            want_nodes = reachable(b, [u])
            require(set(b.descendants([u])) == want_nodes,
                    'descendants.wrong')
            g = __import__('dd.bdd').bdd.to_nx(b, [u])
            require(set(g.nodes) == want_nodes, 'nx.node_set')
            got = eval_nx(g, u, b, names5, 5)
            require(got == tt.widen(t, n, 5), 'nx.wrong_function',
                    dict(t=t, got=got))
            fname = os.path.join(cwd, 'sw.dot')
            b.dump(fname, roots=[u])
            with open(fname) as fd:
                text = fd.read()
            os.remove(fname)
            ids, rt = eval_dot(text, names5, 5)
            require(ids == want_nodes, 'dot.node_set')
            require(rt.get(u) == tt.widen(t, n, 5), 'dot.wrong_function',
                    dict(t=t, got=rt.get(u)))
            for label, members in read_ranks(text):
                for u_ in members:
                    if not u_.startswith('"ref'):
                        require(label is not None and label.isdigit() and
                                int(label) == b.succ(int(u_))[0],
                                'dot.node_in_wrong_level_rank')
        yield dict(t=t), call


HIST_ALPHA = {'build': 8, 'traverse': 14, 'views': 10, 'apply': 4,
              'funcop': 2, 'drop': 6, 'gc': 3, 'swap': 5, 'sift': 2,
              'reorder_to': 3, 'declare': 1, 'undeclare': 1,
              'copy_handle': 1, 'churn': 1}


def _hist_nontrivial(w):
    return 'views' in w.nontrivial and bool(
        w.nontrivial & {'swap', 'sift', 'reorder_to'})


def plan(tier, seed):
    specs = []
    specs += fix.sandwich_specs(tier, seed)
    # views in the middle of histories: handles created before a
    # reordering are inspected again after it
    cfgs = [dict(kind='autoref', nmax=4, init_vars=3),
            dict(kind='autoref', nmax=5, init_vars=4),
            dict(kind='bdd', nmax=4, init_vars=3),
            dict(kind='autoref', nmax=5, init_vars=4, reordering=True,
                 reorder_starts=8)]
    for s_ in range(8 if tier == 'thorough' else 3):
        specs.append(dict(kind='history', seed=seed * 1000 + 800 + s_,
                          cfgs=cfgs,
                          examples=1000 if tier == 'thorough' else 200,
                          min_len=8, max_len=35))
    for n in (1, 2, 3):
        for order in fix.orders(n):
            specs.append(dict(kind='all', n=n, order=order, part=0, parts=1,
                              seed=seed))
    k = 24 if tier == 'thorough' else 2
    parts = 8
    for order in fix.pick_orders(4, k, seed):
        for p in range(parts):
            specs.append(dict(kind='all', n=4, order=order, part=p,
                              parts=parts, seed=seed))
    return specs


# ---------------------------------------------------------------- views
def eval_function(f, nm, n):
    """User-style traversal through the dd.autoref Function interface."""
    F = tt.full(n)
    idx = {x: j for j, x in enumerate(nm)}
    memo = {}

    def reg(g):
        # table of the regular (non-negated) node under g
        k = abs(int(g))
        if k in memo:
            return memo[k]
        x = g.var
        if x is None:
            r = F
        else:
            lo, hi = g.low, g.high
            tl = reg(lo)
            if lo.negated:
                tl = ~tl & F
            th = reg(hi)
            if hi.negated:
                th = ~th & F
            r = tt.ite(tt.var(n, idx[x]), th, tl, n)
        memo[k] = r
        return r
    r = reg(f)
    return (~r & F) if f.negated else r


def eval_nx(g, root, bdd, nm, n):
    """Evaluate the networkx export: node attr `level`, edge attrs
    `value`, `complement`."""
    F = tt.full(n)
    idx = {x: j for j, x in enumerate(nm)}
    memo = {}

    def node(u):
        if u in memo:
            return memo[u]
        out = list(g.out_edges(u, data=True))
        if not out:
            r = F
        else:
            # exactly one else-edge and one then-edge
            lo = [e for e in out if e[2]['value'] is False]
            hi = [e for e in out if e[2]['value'] is True]
            require(len(lo) == 1 and len(hi) == 1 and len(out) == 2,
                    'nx.edge_values',
                    dict(u=u, lo=len(lo), hi=len(hi), out=len(out)))
            tl = node(lo[0][1])
            if lo[0][2]['complement']:
                tl = ~tl & F
            th = node(hi[0][1])
            if hi[0][2]['complement']:
                th = ~th & F
            x = bdd.var_at_level(g.nodes[u]['level'])
            r = tt.ite(tt.var(n, idx[x]), th, tl, n)
        memo[u] = r
        return r
    r = node(abs(root))
    return (~r & F) if root < 0 else r


NODE_RE = re.compile(r'^\s*("?[^\s"]+"?) \[(.*)\];\s*$')
EDGE_RE = re.compile(r'^\s*("?[^\s"]+"?) -> ("?[^\s"]+"?) \[(.*)\];\s*$')
ATTR_RE = re.compile(r'(\w+)="([^"]*)"')


def read_ranks(text):
    """[(label of the phantom level node, [other node ids])] for every
    `subgraph { rank = same ... }` block."""
    ranks = []
    cur = None
    for line in text.splitlines():
        t = line.strip()
        if t.startswith('subgraph'):
            cur = dict(label=None, nodes=[])
            continue
        if cur is not None and t == '}':
            ranks.append((cur['label'], cur['nodes']))
            cur = None
            continue
        if cur is None:
            continue
        m = NODE_RE.match(line)
        if m:
            a = dict(ATTR_RE.findall(m.group(2)))
            if a.get('shape') == 'none':
                require(cur['label'] is None, 'dot.two_level_labels')
                cur['label'] = a.get('label')
            else:
                cur['nodes'].append(m.group(1))
    return ranks


def read_dot(text):
    nodes, edges = {}, []
    for line in text.splitlines():
        m = EDGE_RE.match(line)
        if m:
            edges.append((m.group(1), m.group(2),
                          dict(ATTR_RE.findall(m.group(3)))))
            continue
        m = NODE_RE.match(line)
        if m:
            nodes.setdefault(m.group(1), {}).update(
                dict(ATTR_RE.findall(m.group(2))))
    return nodes, edges


def eval_dot(text, nm, n):
    """Return (bdd node ids, {root label: table}) from the DOT text using
    only the documented legend."""
    F = tt.full(n)
    idx = {x: j for j, x in enumerate(nm)}
    nodes, edges = read_dot(text)
    bddnodes = {}
    refs = {}
    for u, a in nodes.items():
        lab = a.get('label', '')
        if a.get('shape') == 'none':
            continue
        if lab.startswith('@'):
            refs[u] = int(lab[1:])
            continue
        var, _, num = lab.rpartition('-')
        require(num.isdigit() and u == num, 'dot.node_label', dict(u=u, a=a))
        bddnodes[u] = var
    out = {}
    for (u, v, a) in edges:
        if a.get('style') == 'invis':
            continue
        out.setdefault(u, []).append((v, a))
    memo = {}

    def node(u):
        if u in memo:
            return memo[u]
        es = out.get(u, [])
        if not es:
            require(bddnodes[u] == 'True', 'dot.leaf_label',
                    dict(u=u, label=bddnodes[u]))
            r = F
        else:
            require(len(es) == 2, 'dot.out_degree', dict(u=u, k=len(es)))
            then = [e for e in es if e[1].get('style') == 'solid']
            els = [e for e in es if e[1].get('style') == 'dashed']
            require(len(then) == 1 and len(els) == 1, 'dot.edge_styles',
                    dict(u=u))
            require('taillabel' not in then[0][1],
                    'dot.then_edge_complemented')
            th = node(then[0][0])
            tl = node(els[0][0])
            if els[0][1].get('taillabel') == '-1':
                tl = ~tl & F
            r = tt.ite(tt.var(n, idx[bddnodes[u]]), th, tl, n)
        memo[u] = r
        return r
    roots = {}
    for u, k in refs.items():
        es = out.get(u, [])
        require(len(es) == 1, 'dot.ref_out_degree', dict(u=u))
        r = node(es[0][0])
        neg = es[0][1].get('taillabel') == '-1'
        require(neg == (k < 0), 'dot.ref_sign', dict(u=u, k=k))
        roots[k] = (~r & F) if neg else r
    return {int(u) for u in bddnodes}, roots


def check_views(b, A, nm, n, roots_t, refs, cwd, tag):
    """roots_t: list of tables; refs: table -> int reference in b."""
    import dd.bdd as _bdd
    import dd.autoref as _ar
    F = tt.full(n)
    roots = [refs[t] for t in roots_t]
    want_nodes = reachable(b, roots)
    got = b.descendants(roots)
    require(set(got) == want_nodes, 'descendants.wrong',
            dict(got=sorted(got), want=sorted(want_nodes)))
    for t, u in zip(roots_t, roots):
        # succ(u) traversal
        i, v, w = b.succ(u)
        if abs(u) != 1:
            x = b.var_at_level(i)
            j = nm.index(x)
            reg = t if u > 0 else (~t & F)
            d = Den(b, nm)
            require(d(v) == tt.cof(reg, n, j, 0) and
                    d(w) == tt.cof(reg, n, j, 1), 'succ.wrong_cofactors')
        f = _ar.Function(u, A)
        got = eval_function(f, nm, n)
        require(got == t, 'function_traversal.wrong',
                dict(t=t, got=got))
        one = reachable(b, [u])
        require(len(f) == len(one) and f.dag_size == len(one),
                'len_function.wrong', dict(got=len(f), want=len(one)))
        if abs(u) != 1:
            lvl, lo, hi = A.succ(f)
            require(lvl == f.level == b.succ(u)[0], 'autoref.succ.level')
            require(int(lo) == b.succ(u)[1] and int(hi) == b.succ(u)[2],
                    'autoref.succ.children')
            require(f.var == b.var_at_level(lvl), 'function.var')
        else:
            require(f.var is None and f.low is None and f.high is None,
                    'function.terminal_views')
        del f
    # networkx export
    # `roots` may be any iterable of references
    k_ = len(roots) + sum(roots_t)
    roots_arg = (set(roots) if k_ % 4 == 0 else list(roots) if k_ % 4 == 1
                 else iter(list(roots)) if k_ % 4 == 2
                 else (x_ for x_ in list(roots)))
    g = _bdd.to_nx(b, roots_arg)
    got_d = b.descendants(iter(list(roots)))
    require(set(got_d) == want_nodes, 'descendants.wrong',
            dict(got=sorted(got_d), want=sorted(want_nodes)))
    # an iterable of references may be a dict (ordered de-duplication:
    # `dict.fromkeys(roots)`; its values mean nothing) or a key view
    for arg_ in (dict.fromkeys(roots, 1), dict.fromkeys(roots).keys()):
        got_d = b.descendants(arg_)
        require(set(got_d) == want_nodes, 'descendants.wrong',
                dict(got=sorted(got_d), want=sorted(want_nodes),
                     roots=type(arg_).__name__))
    require(set(g.nodes) == want_nodes or (not roots and not g.nodes),
            'nx.node_set', dict(got=sorted(g.nodes),
                                want=sorted(want_nodes)))
    for t, u in zip(roots_t, roots):
        got = eval_nx(g, u, b, nm, n)
        require(got == t, 'nx.wrong_function', dict(t=t, got=got))
    # DOT export
    fname = os.path.join(cwd, f'{tag}.dot')
    b.dump(fname, roots=roots)
    with open(fname) as fd:
        text = fd.read()
    os.remove(fname)
    # levels: every BDD node sits in the rank whose label is its level,
    # external references in the rank labelled `ref`
    for label, members in read_ranks(text):
        for u_ in members:
            if u_.startswith('"ref'):
                require(label == 'ref', 'dot.reference_in_level_rank',
                        dict(node=u_, label=label))
            else:
                require(label is not None and label.isdigit() and
                        int(label) == b.succ(int(u_))[0],
                        'dot.node_in_wrong_level_rank',
                        dict(node=u_, label=label,
                             level=b.succ(int(u_))[0]))
    ids, rt = eval_dot(text, nm, n)
    require(ids == want_nodes, 'dot.node_set',
            dict(got=sorted(ids), want=sorted(want_nodes)))
    for t, u in zip(roots_t, roots):
        require(u in rt, 'dot.root_missing', dict(u=u))
        require(rt[u] == t, 'dot.wrong_function', dict(t=t, got=rt[u]))
    # no roots: nothing is reachable (a refusal is as good)
    for empty in ([], set()) if (sum(roots_t) % 8 == 0 and
                                 len(b) <= 300) else ():
        try:
            b.dump(fname, roots=empty)
        except (AssertionError, ValueError):
            continue
        finally:
            text0 = None
            if os.path.exists(fname):
                with open(fname) as fd:
                    text0 = fd.read()
                os.remove(fname)
        # (only the node statements are read: the text may be large)
        ids0 = [x_ for x_ in read_dot(text0[:200000])[0]
                if x_.strip('"').lstrip('-').isdigit()]
        require(not ids0, 'dot.nodes_without_roots',
                dict(got=sorted(ids0)[:8]))
        g0 = _bdd.to_nx(b, empty)
        require(len(g0.nodes) == 0, 'nx.nodes_without_roots')


def run_all(spec, out):
    import dd.autoref as _ar
    n = spec['n']
    nm = fix.names(n)
    F = tt.full(n)
    order = spec['order']
    A = _ar.BDD()
    A.declare(*order)
    b = A._bdd
    bd = Builder(b, nm)
    refs = [bd(t) for t in range(F + 1)]
    holders = [_ar.Function(u, A) for u in refs]
    cwd = os.getcwd()
    base = {k: spec[k] for k in ('kind', 'n', 'order', 'part', 'parts',
                                 'seed')}
    require(len(b) == len(b._succ) == len(A), 'len_bdd.wrong')
    nt = 0
    cnt = 0
    for t in range(spec['part'], F + 1, spec['parts']):
        out.guard(dict(base, roots=[t]),
                  lambda: check_views(b, A, nm, n, [t], refs, cwd, 'v'))
        cnt += 1
        if len(tt.support(t, n)) >= 2:
            nt += 1
    r = random.Random(f'c18:{spec["seed"]}:{order}:{spec["part"]}')
    for k in range(200 if n >= 3 else 20):
        ts = r.sample(range(F + 1), r.randint(1, min(4, F + 1)))
        out.guard(dict(base, roots=ts),
                  lambda: check_views(b, A, nm, n, ts, refs, cwd, 'v'))
        cnt += 1
        if any(len(tt.support(t, n)) >= 2 for t in ts):
            nt += 1
    out.count(cnt, nt)
    # len(bdd) after a collection == reachable from held
    keep = r.sample(range(F + 1), min(5, F + 1))
    kept = [holders[t] for t in keep]
    for t in range(F + 1):
        if t not in keep:
            holders[t] = None
    A.collect_garbage()

    def after():
        want = reachable(b, [int(f) for f in kept])
        require(len(A) == len(b) == len(want), 'len_bdd.after_gc',
                dict(got=len(b), want=len(want)))
    out.guard(dict(base, step='len-after-gc', keep=keep), after)
    out.sample(dict(base, roots=[F // 3], views=[
        'Function traversal', 'succ', 'descendants', 'len', 'to_nx', 'dot']))
    out.exhaustive = True
    for f in kept:
        f.node = None


def run(spec, out):
    if spec['kind'] == 'history':
        from .. import histprop as H_
        return H_.run_random(spec, out, HIST_ALPHA, _hist_nontrivial)
    if spec['kind'] == 'sandwich':
        return fix.run_sandwich(spec, out, _sandwich_calls)
    run_all(spec, out)


def replay_into(case, out):
    if case.get('kind') == 'history':
        from .. import histprop as H_
        return H_.replay_into(case, out)
    if case.get('kind') == 'sandwich':
        return fix.run_sandwich({k: case[k] for k in (
            'kind', 'perturbation', 'pos', 'order', 'seed')}, out,
            _sandwich_calls)
    spec = {k: case[k] for k in ('kind', 'n', 'order', 'part', 'parts',
                                 'seed')}
    run_all(spec, out)
