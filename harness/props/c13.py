"""C13 — image and preimage equal rename, conjoin, quantify."""
import itertools
import random

from .. import tt, fix
from ..denote import Den, Builder
from ..viol import Violation, require

ID = 'C13'
LEVEL = 'exploration'
RULE = (
    'Both functions with both directions of the renaming run on one manager (complete part); in the random part the other function is called with the very same arguments, then the first one again. '
    'S: image / preimage with dynamic reordering enabled, the trigger at every position (as in C09); qvars given as set, list, iterator or generator. '
    'E: one pair (x, xp) without and with one free variable y: every (trans, '
    'set) pair of functions for 2 variables (256) and all (thorough; quick: '
    'a seeded 1/16) of the 65 536 pairs for 3 variables x every subset of '
    'quantified variables x both quantifiers x every order that keeps the '
    'pair adjacent (either internal order; y above or below), and for image '
    'also the order with y between the pair. R: Hypothesis 2-3 pairs plus '
    '0-2 free variables; orders drawn as a permutation of blocks with each '
    'pair block in either internal order (adjacency by construction), for '
    'image also arbitrary orders; arguments as names or as levels; '
    'dd.bdd.image/preimage and the dd.autoref wrappers. Oracle: preimage = '
    'Q qvars. trans /\\ rename(target); image = rename(Q qvars. trans /\\ '
    'source) on truth tables; image inputs outside its documented '
    'precondition (a rename target that is neither quantified nor absent '
    'from the operands) must be rejected with AssertionError. Non-trivial: '
    'trans depends on both members of a pair and qvars not empty; distinct '
    '= (function, order, trans, set, qvars, kind).')
ASSUMPTIONS = [
    'rename maps are injective with keys disjoint from values (documented)',
]


def plan(tier, seed):
    specs = []
    # trigger-position sweeps of dynamic reordering (machinery of C09)
    for s_ in range(16 if tier == 'thorough' else 2):
        specs.append(dict(kind='schedule', seed=seed * 100 + 60 + s_,
                          only=['image', 'preimage'],
                          examples=400 if tier == 'thorough' else 40))
    # two variables: x, xp
    for order in (['x', 'xp'], ['xp', 'x']):
        specs.append(dict(kind='one', names=['x', 'xp'], order=order,
                          stride=1, offset=0, seed=seed))
    orders3 = [['x', 'xp', 'y'], ['xp', 'x', 'y'], ['y', 'x', 'xp'],
               ['y', 'xp', 'x'], ['x', 'y', 'xp'], ['xp', 'y', 'x']]
    if tier == 'thorough':
        # complete: 8 disjoint parts per order
        for order in orders3:
            for part in range(8):
                specs.append(dict(kind='one', names=['x', 'xp', 'y'],
                                  order=order, stride=8, offset=part,
                                  seed=seed))
    else:
        for k, order in enumerate(orders3):
            specs.append(dict(kind='one', names=['x', 'xp', 'y'],
                              order=order, stride=16,
                              offset=(seed + k) % 16, seed=seed))
    for s in range(32 if tier == 'thorough' else 5):
        specs.append(dict(kind='random', seed=seed * 100 + s,
                          examples=4000 if tier == 'thorough' else 300))
    return specs


def expected_pre(tr, tg, n, ren, q, fa):
    inner = tr & tt.rename(tg, n, ren)
    return tt.forall(inner, n, q) if fa else tt.exists(inner, n, q)


def expected_img(tr, src, n, ren, q, fa):
    inner = tr & src
    r = tt.forall(inner, n, q) if fa else tt.exists(inner, n, q)
    return tt.rename(r, n, ren)


def image_precondition(tr, src, n, ren, q):
    s = (tt.support(tr, n) | tt.support(src, n)) - set(q)
    return not (s & set(ren.values()))


def adjacent(order, pairs):
    lv = {x: l for l, x in enumerate(order)}
    return all(abs(lv[a] - lv[b]) == 1 for a, b in pairs)


def run_one(spec, out):
    import dd.bdd as _bdd
    nm = tuple(spec['names'])
    n = len(nm)
    F = tt.full(n)
    order = spec['order']
    b = fix.new_bdd(order)
    refs = fix.build_all(b, nm)
    den = Den(b, nm)
    adj = adjacent(order, [('x', 'xp')])
    base = dict(kind='one', names=list(nm), order=order,
                stride=spec['stride'], offset=spec['offset'],
                seed=spec.get('seed', 1))
    subsets = [[j for j in range(n) if (m >> j) & 1] for m in range(1 << n)]
    pairs = [(a, c) for a in range(F + 1) for c in range(F + 1)]
    cnt = nt = rej = 0
    k = 0
    for idx in range(spec['offset'], len(pairs), spec['stride']):
        tr, st = pairs[idx]
        dep_pair = tt.depends(tr, n, 0) and tt.depends(tr, n, 1)
        for q in subsets:
            qn = {nm[j] for j in q}
            # both functions with both directions of the renaming, on
            # one manager (a memo of one must not serve the other)
            for fa, (ka, kb) in itertools.product(
                    (False, True), (('x', 'xp'), ('xp', 'x'))):
                ia, ib = nm.index(ka), nm.index(kb)
                if adj:
                    want = expected_pre(tr, st, n, {ia: ib}, q, fa)
                    case = dict(base, op='preimage', trans=tr, set=st, q=q,
                                forall=fa, ren=[ka, kb])
                    try:
                        r = _bdd.preimage(refs[tr], refs[st], {ka: kb},
                                          iter(sorted(qn)) if (tr + st) % 3
                                          == 0 else qn, b, forall=fa)
                        if den(r) != want or r != refs[want]:
                            out.fail('preimage.wrong_result', case,
                                     dict(got=den(r), want=want))
                    except Exception as e:
                        out.guard(case, _reraise, e)
                    cnt += 1
                    if dep_pair and q:
                        nt += 1
                ok = image_precondition(tr, st, n, {ia: ib}, q)
                case = dict(base, op='image', trans=tr, set=st, q=q,
                            forall=fa, ren=[ka, kb])
                try:
                    r = _bdd.image(refs[tr], refs[st], {ka: kb}, qn, b,
                                   forall=fa)
                    if not ok:
                        out.fail('image.precondition_not_checked', case)
                    else:
                        want = expected_img(tr, st, n, {ia: ib}, q, fa)
                        if den(r) != want or r != refs[want]:
                            out.fail('image.wrong_result', case,
                                     dict(got=den(r), want=want))
                except AssertionError as e:
                    if ok:
                        out.guard(case, _reraise, e)
                    else:
                        rej += 1
                except Exception as e:
                    out.guard(case, _reraise, e)
                cnt += 1
                if ok and dep_pair and q:
                    nt += 1
        k += 1
        if k % 256 == 0:
            b.collect_garbage()
    out.count(cnt, nt)
    out.label('image.rejected_outside_precondition', rej)
    from .. import inv
    out.guard(dict(base, step='structure'), lambda: inv.check_structure(b))
    den = Den(b, nm)
    for t, u in enumerate(refs):
        if den(u) != t:
            out.fail('operand_changed', dict(base, t=t))
    out.sample(dict(base, op='preimage', trans=F // 3, set=F // 5, q=[1],
                    forall=False))
    out.exhaustive = (spec['stride'] in (1, 8))


def _reraise(e):
    raise e


def check_random_case(case):
    import dd.bdd as _bdd
    import dd.autoref as _ar
    nm = tuple(case['names'])
    n = len(nm)
    F = tt.full(n)
    idx = {x: j for j, x in enumerate(nm)}
    order = case['order']
    lv = {x: l for l, x in enumerate(order)}
    A = _ar.BDD()
    A.declare(*order)
    b = A._bdd
    bd = Builder(b, nm)
    tr, st = case['trans'] & F, case['set'] & F
    ft, fs = _ar.Function(bd(tr), A), _ar.Function(bd(st), A)
    pairs = case['pairs']          # list of [unprimed, primed]
    q = [idx[x] for x in case['qvars']]
    fa = case['forall']
    op = case['op']
    if op == 'preimage':
        ren_names = {a: p for a, p in pairs}
    else:
        ren_names = {p: a for a, p in pairs}
    ren_idx = {idx[k]: idx[v] for k, v in ren_names.items()}
    if case['as_levels']:
        ren_arg = {lv[k]: lv[v] for k, v in ren_names.items()}
        q_arg = {lv[x] for x in case['qvars']}
    else:
        ren_arg = dict(ren_names)
        q_arg = set(case['qvars'])
    # qvars may be any iterable (dd.bdd functions)
    qf = case.get('qform', 0)
    if case['api'] == 'bdd' and qf:
        q_list = sorted(q_arg, key=str)
        q_arg = (q_list if qf == 1 else iter(q_list) if qf == 2
                 else (x_ for x_ in q_list))
    den = Den(b, nm)
    if case.get('limit') is not None:
        # the documented node limit is reached in mid-operation: either
        # RuntimeError, or the right result
        b.max_nodes = len(b) + case['limit']
        try:
            fn_ = getattr(_bdd, op)
            r_ = fn_(ft.node, fs.node, dict(ren_arg), set(
                {lv[x] for x in case['qvars']} if case['as_levels']
                else case['qvars']), b, fa)
        except RuntimeError:
            r_ = None
        except AssertionError:
            r_ = None
        finally:
            b.max_nodes = 10 ** 9
        if r_ is not None:
            want_ = (expected_pre if op == 'preimage' else expected_img)(
                tr, st, n, ren_idx, q, fa)
            ok_ = op == 'preimage' or image_precondition(
                tr, st, n, ren_idx, q)
            if ok_ and (op == 'image' or adjacent(
                    order, list(ren_names.items()))):
                require(abs(r_) in b._succ and Den(b, nm)(r_) == want_,
                        f'{op}.wrong_result_at_node_limit',
                        dict(limit=case['limit']))
        d0 = Den(b, nm)
        require(d0(ft.node) == tr and d0(fs.node) == st,
                'operand_changed')
        den = Den(b, nm)
    if op == 'preimage':
        want = expected_pre(tr, st, n, ren_idx, q, fa)
        if case['api'] == 'autoref':
            r = _ar.preimage(ft, fs, ren_arg, q_arg, fa).node
        else:
            r = _bdd.preimage(ft.node, fs.node, ren_arg, q_arg, b, fa)
    else:
        ok = image_precondition(tr, st, n, ren_idx, q)
        try:
            if case['api'] == 'autoref':
                r = _ar.image(ft, fs, ren_arg, q_arg, fa).node
            else:
                r = _bdd.image(ft.node, fs.node, ren_arg, q_arg, b, fa)
        except AssertionError:
            require(not ok, 'image.rejected_valid_input')
            return False
        require(ok, 'image.precondition_not_checked')
        want = expected_img(tr, st, n, ren_idx, q, fa)
    got = den(r)
    require(got == want, f'{op}.wrong_result', dict(got=got, want=want))
    # the other function with the very same arguments on the same
    # manager, then the first one again: a result remembered for one
    # must not be served to the other
    if case['as_levels']:
        q2 = {lv[x] for x in case['qvars']}
    else:
        q2 = set(case['qvars'])
    other = 'image' if op == 'preimage' else 'preimage'
    hold = _ar.Function(r, A)
    for which in (other, op):
        fn = getattr(_bdd, which)
        if which == 'image':
            ok2 = image_precondition(tr, st, n, ren_idx, q)
            want2 = expected_img(tr, st, n, ren_idx, q, fa)
        else:
            ok2 = adjacent(order, [(k_, v_) for k_, v_ in
                                   ren_names.items()])
            want2 = expected_pre(tr, st, n, ren_idx, q, fa)
        try:
            r2 = fn(ft.node, fs.node, dict(ren_arg), set(q2), b, fa)
        except AssertionError:
            require(not ok2 or which == 'preimage',
                    'image.rejected_valid_input')
            continue
        if not ok2:
            continue
        require(Den(b, nm)(r2) == want2, f'{which}.wrong_after_other',
                dict(got=Den(b, nm)(r2), want=want2))
    del hold
    from .. import inv
    inv.check_structure(b)
    require(r == Builder(b, nm)(want), 'result.not_canonical')
    d2 = Den(b, nm)
    require(d2(ft.node) == tr and d2(fs.node) == st, 'operand_changed')
    dep = any(tt.depends(tr, n, idx[a]) and tt.depends(tr, n, idx[p])
              for a, p in pairs)
    return dep and bool(q)


def run_random(spec, out):
    import hypothesis
    from hypothesis import given, settings, strategies as st, HealthCheck

    @st.composite
    def cases(draw):
        npairs = draw(st.integers(1, 3))
        nfree = draw(st.integers(0, 2 if npairs < 3 else 1))
        pairs = [[f'v{i}', f'v{i}p'] for i in range(npairs)]
        free = [f'y{i}' for i in range(nfree)]
        names = [x for p in pairs for x in p] + free
        n = len(names)
        F = tt.full(n)
        op = draw(st.sampled_from(['preimage', 'image']))
        blocks = [list(p) if draw(st.booleans()) else list(reversed(p))
                  for p in pairs] + [[y] for y in free]
        blocks = draw(st.permutations(blocks))
        order = [x for bl in blocks for x in bl]
        if op == 'image' and draw(st.integers(0, 3)) == 0:
            order = list(draw(st.permutations(names)))
        # use a subset of the pairs in the renaming
        used = draw(st.lists(st.sampled_from(pairs), min_size=1,
                             max_size=npairs, unique_by=lambda p: p[0]))

        def table():
            k = draw(st.integers(0, 2))
            if k == 0:
                return draw(st.integers(0, F))
            # structured: conjunction of per-pair relations
            t = F
            for a, p in pairs:
                va, vp = tt.var(n, names.index(a)), tt.var(n, names.index(p))
                c = draw(st.sampled_from(
                    [F, va, vp, va ^ vp, ~(va ^ vp) & F, va & vp,
                     va | vp, ~va & F]))
                t &= c
            return t
        qv = draw(st.lists(st.sampled_from(names), unique=True))
        if op == 'image' and draw(st.integers(0, 4)):
            # satisfy image's precondition most of the time
            qv = sorted(set(qv) | {a for a, p in used})
        return dict(kind='random', names=names, order=order, op=op,
                    pairs=used, trans=table(), set=table(), qvars=qv,
                    forall=draw(st.booleans()),
                    qform=draw(st.integers(0, 3)),
                    limit=draw(st.sampled_from([None, None, None, 0, 1, 2,
                                                3, 5, 8])),
                    as_levels=draw(st.booleans()),
                    api=draw(st.sampled_from(['bdd', 'autoref'])))

    @hypothesis.seed(spec['seed'])
    @settings(max_examples=spec['examples'], deadline=None, database=None,
              suppress_health_check=list(HealthCheck),
              phases=[hypothesis.Phase.generate])
    @given(cases())
    def test(case):
        def body():
            out.case(check_random_case(case), case)
            out.label(f'{case["op"]}.pairs={len(case["pairs"])}')
            out.sample(case)
        if not out.guard(case, body):
            out.case(False, case)
    test()


def run(spec, out):
    if spec['kind'] == 'schedule':
        from . import c09
        return c09.run_schedule(spec, out)
    dict(one=run_one, random=run_random)[spec['kind']](spec, out)


def replay_into(case, out):
    if case['kind'] == 'schedule':
        from . import c09
        return c09.replay_into(case, out)
    if case['kind'] == 'random':
        out.guard(case, lambda: check_random_case(case))
        out.count(1, 0)
        return
    if 'stride' in case:
        # the failure may depend on earlier calls on the same manager:
        # run the shard again
        return run_one({k: case[k] for k in (
            'kind', 'names', 'order', 'stride', 'offset', 'seed')}, out)
    import dd.bdd as _bdd
    nm = tuple(case['names'])
    n = len(nm)

    def body():
        b = fix.new_bdd(case['order'])
        refs = fix.build_all(b, nm)
        den = Den(b, nm)
        qn = {nm[j] for j in case['q']}
        tr, st, q, fa = case['trans'], case['set'], case['q'], case['forall']
        if case['op'] == 'preimage':
            r = _bdd.preimage(refs[tr], refs[st], {'x': 'xp'}, qn, b,
                              forall=fa)
            require(den(r) == expected_pre(tr, st, n, {0: 1}, q, fa),
                    'preimage.wrong_result')
        else:
            ok = image_precondition(tr, st, n, {1: 0}, q)
            try:
                r = _bdd.image(refs[tr], refs[st], {'xp': 'x'}, qn, b,
                               forall=fa)
            except AssertionError:
                require(not ok, 'image.rejected_valid_input')
                return
            require(ok, 'image.precondition_not_checked')
            require(den(r) == expected_img(tr, st, n, {1: 0}, q, fa),
                    'image.wrong_result')
    out.guard(case, body)
    out.count(1, 0)
