"""Execute the Cython wrappers' own method bodies against models of the C
libraries (C19).

The extensions cannot be built offline (no CUDD / Sylvan / BuDDy), so the
method text is cut out of the `.pyx` file, rewritten mechanically into
Python and executed with stub libraries whose nodes are truth tables and
which keep a per-node reference counter:

  1. `cpdef|cdef [Type] name(`  ->  `def name(`
  2. lines that start with `cdef ` (C declarations) are dropped
  3. `NULL` -> `None`
  4. `from __future__ import annotations` (annotations are never evaluated)

If a method does not fit these rewrites it is reported as *not reached*
(never as a violation).
"""
import os
import re
import textwrap

from . import tt
from .env import DD_REPO

N = 3
NAMES = ('x', 'y', 'z')
F = tt.full(N)


# nodes that the libraries keep referenced for good (constants and the
# projection functions of the variables)
PERMANENT = {0, F} | {tt.var(N, j) for j in range(N)} | {
    ~tt.var(N, j) & F for j in range(N)}


class NotReached(Exception):
    pass


def read(name):
    with open(os.path.join(DD_REPO, 'dd', name + '.pyx')) as f:
        return f.read().split('\n')


DEF_RE = r'^(\s*)(?:cpdef|cdef|def)\s+(?:[\w\.\*]+\s+)?{name}\($'


def find_class(lines, cls):
    for i, l in enumerate(lines):
        if re.match(rf'^cdef class {cls}\b', l):
            j = i + 1
            while j < len(lines) and not re.match(r'^(cdef class|class) ',
                                                  lines[j]):
                j += 1
            return i, j
    raise NotReached(f'class {cls}')


def extract(lines, name, lo=0, hi=None, top=False):
    hi = len(lines) if hi is None else hi
    pat = re.compile(DEF_RE.format(name=re.escape(name)))
    for i in range(lo, hi):
        m = pat.match(lines[i])
        if m and top and m.group(1):
            continue        # a method, not the module-level function
        if m:
            ind = len(m.group(1))
            j = i + 1
            while j < hi and (not lines[j].strip() or
                              len(lines[j]) - len(lines[j].lstrip()) > ind):
                j += 1
            return lines[i:j]
    raise NotReached(f'method {name}')


def transliterate(block):
    out = []
    for k, l in enumerate(block):
        if k == 0:
            l = re.sub(r'^(\s*)(?:cpdef|cdef|def)\s+(?:[\w\.\*]+\s+)?(\w+)\($',
                       r'\1def \2(', l)
        elif re.match(r'^\s*cdef\s', l):
            continue
        l = re.sub(r'\bNULL\b', 'None', l)
        out.append(l)
    return textwrap.dedent('\n'.join(out))


def compile_method(lines, name, env, lo=0, hi=None):
    src = transliterate(extract(lines, name, lo, hi))
    code = 'from __future__ import annotations\n' + src
    ns = env
    try:
        exec(compile(code, f'<{name}>', 'exec'), ns)
    except SyntaxError as e:
        raise NotReached(f'{name}: not Python after rewriting: {e}')
    return ns[name], src


# ------------------------------------------------------------- libraries
class Ledger:
    """Per-node reference counter of the stub library + call counter for
    fault injection (the i-th node-producing call returns NULL)."""

    def __init__(self, null=None):
        self.count = {}
        self.released = set()
        self.use_after_release = False
        self.calls = 0
        self.fail_at = None
        self.null = null
        self.negative = False

    def begin_call(self):
        """Start of one wrapper-method call: forget which nodes were
        released earlier."""
        self.released = set()
        self.use_after_release = False

    def ref(self, n):
        if n in getattr(self, 'released', ()):
            # the last reference was given back earlier in this call: the
            # library may already have freed the node
            self.use_after_release = True
        self.count[n] = self.count.get(n, 0) + 1

    def deref(self, n):
        c = self.count.get(n, 0) - 1
        if c < 0:
            self.negative = True
        self.count[n] = c
        if c == 0 and hasattr(self, 'released') and n not in PERMANENT:
            self.released.add(n)

    def result(self, value):
        self.calls += 1
        if self.fail_at is not None and self.calls == self.fail_at:
            return self.null
        return value & F

    def live(self):
        return {n: c for n, c in self.count.items() if c}


def sup(t):
    return tt.support(t, N)


def cudd_env(L):
    e = {}
    e['Cudd_Ref'] = L.ref
    e['Cudd_RecursiveDeref'] = lambda mgr, n: L.deref(n)
    e['Cudd_Deref'] = L.deref
    e['Cudd_Not'] = lambda a: ~a & F
    e['Cudd_ReadOne'] = lambda mgr: F
    e['Cudd_ReadLogicZero'] = lambda mgr: 0
    e['Cudd_IsConstant'] = lambda a: a in (0, F)
    e['Cudd_IsComplement'] = lambda a: not (a >> ((1 << N) - 1)) & 1
    e['Cudd_Regular'] = lambda a: a if (a >> ((1 << N) - 1)) & 1 \
        else ~a & F
    e['Cudd_bddIthVar'] = lambda m, j: tt.var(N, j % N)

    def _cofactor(m, f, c):
        # c is a cube (product of literals)
        vals = {}
        for j in sup(c):
            vals[j] = 1 if tt.cof(c, N, j, 1) != 0 else 0
        return L.result(tt.cofactor(f, N, vals))
    e['Cudd_Cofactor'] = _cofactor
    e['Cudd_bddCompose'] = lambda m, f, g, j: L.result(
        tt.compose(f, N, {j: g}))
    e['Cudd_bddVectorCompose'] = lambda m, f, x: L.result(
        tt.compose(f, N, {j: x[j] for j in range(N)}))

    def _swapvars(m, u, x, y, n):
        ren = {}
        for i in range(n):
            (jx,), (jy,) = sorted(sup(x[i])), sorted(sup(y[i]))
            ren[jx] = jy
            ren[jy] = jx
        return L.result(tt.rename(u, N, ren))
    e['Cudd_bddSwapVariables'] = _swapvars
    # DDDMP loader: returns a referenced node (the table is taken from
    # the "file name")
    def _dddmp_load(m, *a):
        r = L.result(int(_dddmp_state['table']))
        if r is not None:
            L.ref(r)
        return r
    _dddmp_state = dict(table=0)
    e['_dddmp_state'] = _dddmp_state
    e['Dddmp_cuddBddLoad'] = _dddmp_load

    class _EncodedName(str):
        def encode(self):
            return self

    def _fopen(name, mode):
        if isinstance(name, bytes):
            name = name.decode()
        _dddmp_state['table'] = int(str(name).split('.')[0])
        return 'FILE'
    e['fopen'] = _fopen
    e['fclose'] = lambda f: None
    for k_ in ('DDDMP_VAR_MATCHNAMES', 'DDDMP_MODE_TEXT', 'DDDMP_VARNAMES',
               'DDDMP_SUCCESS'):
        e[k_] = k_
    e['cuddUniqueInter'] = lambda m, j, hi, lo: L.result(
        tt.ite(tt.var(N, j), hi, lo, N))
    e['PyMem_Malloc'] = lambda k: [None] * k
    e['PyMem_Free'] = lambda v: None
    e['sizeof'] = lambda t: 1
    e['DdRef'] = object
    e['python_bool'] = bool
    e['Cudd_bddAnd'] = lambda m, a, b: L.result(a & b)
    e['Cudd_bddOr'] = lambda m, a, b: L.result(a | b)
    e['Cudd_bddXor'] = lambda m, a, b: L.result(a ^ b)
    e['Cudd_bddXnor'] = lambda m, a, b: L.result(~(a ^ b))
    e['Cudd_bddIte'] = lambda m, f, g, h: L.result((f & g) | (~f & h))
    # Cudd_bdd{Exist,Univ}Abstract(manager, f, cube)
    e['Cudd_bddExistAbstract'] = lambda m, f, c: L.result(
        tt.exists(f, N, sup(c)))
    e['Cudd_bddUnivAbstract'] = lambda m, f, c: L.result(
        tt.forall(f, N, sup(c)))
    return e


# variable order of the stub ZDD library: level -> variable index
ZPERM = {'invperm': [0, 1, 2]}


def zdd_env(L):
    e = {}
    e['Cudd_Ref'] = L.ref
    e['Cudd_RecursiveDerefZdd'] = lambda mgr, n: L.deref(n)
    e['Cudd_RecursiveDeref'] = lambda mgr, n: L.deref(n)
    e['Cudd_Deref'] = L.deref
    # CUDD: `Cudd_ReadZddOne(dd, i)` returns `dd->univ[i]` (NULL for
    # i < 0, the constant ONE for i >= size): the family in which the
    # variables at the *levels* above i are absent and those from level
    # i down are free.  The current order is `ZPERM['invperm']`
    # (level -> variable index).
    def _zdd_one(mgr, i):
        if i < 0:
            return L.null
        t = F
        for level, j in enumerate(ZPERM['invperm']):
            if level < i:
                t &= ~tt.var(N, j) & F
        return t
    e['Cudd_ReadZddOne'] = _zdd_one
    e['Cudd_ReadInvPermZdd'] = lambda mgr, level: (
        ZPERM['invperm'][level] if 0 <= level < N else -1)
    e['Cudd_ReadPermZdd'] = lambda mgr, j: (
        ZPERM['invperm'].index(j) if 0 <= j < N else -1)
    e['Cudd_zddIthVar'] = lambda mgr, j: L.result(tt.var(N, j % N))
    e['Cudd_ReadZero'] = lambda mgr: 0
    e['Cudd_IsConstant'] = lambda a: a in (0, F)
    e['Cudd_zddDiff'] = lambda m, a, b: L.result(a & ~b)
    e['Cudd_zddIntersect'] = lambda m, a, b: L.result(a & b)
    e['Cudd_zddUnion'] = lambda m, a, b: L.result(a | b)
    e['Cudd_zddIte'] = lambda m, f, g, h: L.result((f & g) | (~f & h))
    # helpers of the same module, by their documented meaning
    e['_forall_root'] = lambda m, f, c: L.result(tt.forall(f, N, sup(c)))
    e['_exist_root'] = lambda m, f, c: L.result(tt.exists(f, N, sup(c)))
    return e


class _NS:
    pass


def sylvan_env(L):
    sy = _NS()
    sy.sylvan_invalid = L.null
    sy.LACE_ME_WRAP = None
    sy.sylvan_ref = L.ref
    sy.sylvan_deref = L.deref
    sy.sylvan_not = lambda a: ~a & F
    sy.sylvan_and = lambda a, b: L.result(a & b)
    sy.sylvan_or = lambda a, b: L.result(a | b)
    sy.sylvan_xor = lambda a, b: L.result(a ^ b)
    sy.sylvan_imp = lambda a, b: L.result(~a | b)
    sy.sylvan_biimp = lambda a, b: L.result(~(a ^ b))
    sy.sylvan_diff = lambda a, b: L.result(a & ~b)
    sy.sylvan_ite = lambda f, g, h: L.result((f & g) | (~f & h))
    # sylvan_exists(BDD a, BDD qvars), sylvan_forall(BDD a, BDD qvars)
    # (dd/c_sylvan.pxd)
    sy.sylvan_exists = lambda a, q: L.result(tt.exists(a, N, sup(q)))
    sy.sylvan_forall = lambda a, q: L.result(tt.forall(a, N, sup(q)))
    return dict(sy=sy)


def buddy_env(L):
    buddy = _NS()
    buddy.bdd_addref = L.ref
    buddy.bdd_delref = L.deref
    buddy.bdd_not = lambda a: ~a & F
    buddy.bdd_and = lambda a, b: L.result(a & b)
    buddy.bdd_or = lambda a, b: L.result(a | b)
    buddy.bdd_xor = lambda a, b: L.result(a ^ b)
    return dict(buddy=buddy)


class Model:
    """Python model of one wrapper module."""

    def __init__(self, name):
        import dd._utils as _utils
        import dd._abc as _dd_abc
        self.name = name
        self.lines = read(name)
        self.null = object() if name == 'sylvan' else None
        self.L = Ledger(self.null)
        env = dict(_utils=_utils, _dd_abc=_dd_abc, __builtins__=__builtins__)
        env.update(dict(cudd=cudd_env, cudd_zdd=zdd_env, sylvan=sylvan_env,
                        buddy=buddy_env)[name](self.L))
        self.env = env
        self.reached = []
        self.not_reached = []
        self.sources = {}
        mgr_cls = 'ZDD' if name == 'cudd_zdd' else 'BDD'
        self.mgr_cls = mgr_cls
        flo, fhi = find_class(self.lines, 'Function')
        blo, bhi = find_class(self.lines, mgr_cls)
        model = self
        L = self.L

        # ---- Function
        fmeth = {}
        for m in (['__cinit__', '__dealloc__'] if name == 'buddy'
                  else ['init', '__dealloc__']):
            try:
                fn, src = compile_method(self.lines, m, dict(env), flo, fhi)
                fmeth[m] = fn
                self.sources[f'Function.{m}'] = src
                self.reached.append(f'Function.{m}')
            except NotReached as e:
                self.not_reached.append(f'Function.{m}: {e}')

        class Function:
            def __init__(self, *a):
                self._ref = 0
                self.node = model.null
                self.bdd = None
                self.manager = None
                if name == 'buddy':
                    fmeth['__cinit__'](self, *a)

            def init(self, node, bdd):
                return fmeth['init'](self, node, bdd)

            def dealloc(self):
                return fmeth['__dealloc__'](self)

            def __len__(self):
                # `Cudd_DagSize` counts the terminal; `Cudd_zddDagSize`,
                # `sylvan_nodecount`, `bdd_nodecount` count decision
                # nodes only: a constant has length 0 there, so a handle
                # of a constant is falsy
                node = self.node
                if node is None or node is model.null:
                    return 0
                inner = 0 if node in (0, F) else 1 + len(sup(node))
                return inner + (1 if name == 'cudd' else 0)

            def __del__(self):
                try:
                    fmeth['__dealloc__'](self)
                except Exception as e:
                    model.dealloc_errors += 1
                    model.last_dealloc_error = repr(e)
        self.dealloc_errors = 0
        self.last_dealloc_error = None
        self.Function = Function
        env['Function'] = Function

        # ---- wrap()
        if name != 'buddy':
            try:
                fn, src = compile_method(self.lines, 'wrap', env)
                self.wrap = fn
                self.sources['wrap'] = src
                self.reached.append('wrap')
            except NotReached as e:
                self.not_reached.append(f'wrap: {e}')
        else:
            self.wrap = lambda bdd, node: Function(node)
        env['wrap'] = self.wrap

        # ---- manager
        class Manager:
            def __init__(self):
                self.manager = 'MGR'

            def configure(self, **kw):
                return dict(max_memory=1, max_cache_hard=1,
                            reordering=False)

            def support(self, u):
                return {NAMES[j] for j in sup(u.node)}

            def __eq__(self, other):
                return self is other

            def __hash__(self):
                return id(self)
        self.Manager = Manager
        env[mgr_cls] = Manager
        if name == 'cudd_zdd':
            def _dict_to_zdd(qvars, zdd):
                t = F
                for x in qvars:
                    t &= tt.var(N, NAMES.index(x))
                return model.wrap(zdd, t)
            env['_dict_to_zdd'] = _dict_to_zdd
        if name == 'buddy':
            txt = '\n'.join(self.lines)
            m = re.search(r'_OperatorSymbol[^=]*=\s*_ty\.Literal\[(.*?)\]',
                          txt, re.S)
            if not m:
                self.not_reached.append('buddy._OPERATOR_SYMBOLS')
                env['_OPERATOR_SYMBOLS'] = set()
            else:
                env['_OPERATOR_SYMBOLS'] = set(
                    re.findall(r"'([^']+)'", m.group(1)))
        import logging as _logging
        env['logger'] = _logging.getLogger('harness.pyxmodel')
        env['logger'].setLevel(_logging.CRITICAL)
        Manager.vars = set(NAMES)
        Manager._index_of_var = {x: j for j, x in enumerate(NAMES)}
        Manager._var_with_index = {j: x for j, x in enumerate(NAMES)}
        Manager._number_of_cudd_vars = lambda self_: N
        Manager.level_of_var = lambda self_, x: NAMES.index(x)

        def _mock_cube(self_, dvars):
            if not isinstance(dvars, dict):
                dvars = {x: True for x in dvars}
            t = F
            for x, v in dvars.items():
                xv = tt.var(N, NAMES.index(x))
                t &= xv if v else (~xv & F)
            return model.wrap(self_, t)
        Manager.cube = _mock_cube
        extra = []
        if name == 'cudd':
            extra = ['ite', 'quantify', 'forall', 'exist', '_cofactor',
                     '_compose', '_unary_compose', '_multi_compose',
                     '_rename', '_swap', 'var', 'let', '_load_dddmp']
        for m in ['apply', 'incref', 'decref', '_incref', '_decref'] + extra:
            if m in extra:
                try:
                    src = transliterate_c(extract(self.lines, m, blo, bhi))
                    exec(compile('from __future__ import annotations\n' +
                                 src, f'<{name}.{m}>', 'exec'), env)
                    setattr(Manager, m, env[m])
                    self.sources[f'{mgr_cls}.{m}'] = src
                    self.reached.append(f'{mgr_cls}.{m}')
                except (NotReached, SyntaxError) as e:
                    self.not_reached.append(f'{mgr_cls}.{m}: {e}')
                continue
            try:
                fn, src = compile_method(self.lines, m, env, blo, bhi)
                setattr(Manager, m, fn)
                self.sources[f'{mgr_cls}.{m}'] = src
                self.reached.append(f'{mgr_cls}.{m}')
            except NotReached as e:
                self.not_reached.append(f'{mgr_cls}.{m}: {e}')
        self.mgr = Manager()

    def extend_for_declare(self):
        """`add_var` / `_add_var` of the manager class, transliterated
        (cudd and cudd_zdd)."""
        if self.name not in ('cudd', 'cudd_zdd'):
            raise NotReached('declare: cudd wrappers only')
        env, Manager = self.env, self.Manager
        blo, bhi = find_class(self.lines, self.mgr_cls)
        for m in ('add_var', '_add_var'):
            src = transliterate_c(extract(self.lines, m, blo, bhi))
            exec(compile('from __future__ import annotations\n' + src,
                         f'<{self.name}.{m}>', 'exec'), env)
            setattr(Manager, m, env[m])
            self.sources[f'{self.mgr_cls}.{m}'] = src
            self.reached.append(f'{self.mgr_cls}.{m}')

    def extend_for_json_load(self):
        """What `dd._copy.load_json` needs from a `dd.cudd.BDD`:
        `find_or_add`, `_add_int` and the int <-> node conversions are
        transliterated from the source; the views `negated`, `ref`,
        `level`, `~u`, `int(u)`, the constants and the declaration
        calls are given their documented meaning here (variables x, y, z
        in this order; dynamic reordering off)."""
        if self.name != 'cudd':
            raise NotReached('json load: cudd only')
        env, L, Manager, Function = self.env, self.L, self.Manager, \
            self.Function
        model = self
        blo, bhi = find_class(self.lines, self.mgr_cls)
        for m in ('_ddref_to_int', '_int_to_ddref'):
            src = transliterate_c(extract(self.lines, m, top=True))
            exec(compile('from __future__ import annotations\n' + src,
                         f'<cudd.{m}>', 'exec'), env)
            self.sources[m] = src
            self.reached.append(m)
        for m in ('find_or_add', '_add_int'):
            src = transliterate_c(extract(self.lines, m, blo, bhi))
            exec(compile('from __future__ import annotations\n' + src,
                         f'<cudd.{m}>', 'exec'), env)
            setattr(Manager, m, env[m])
            self.sources[f'BDD.{m}'] = src
            self.reached.append(f'BDD.{m}')
        env['stdint'] = None
        CONST = 1 << 20

        def _top(node):
            s_ = sup(node)
            return min(s_) if s_ else CONST
        Function.negated = property(
            lambda f: bool(env['Cudd_IsComplement'](f.node)))
        Function.level = property(lambda f: _top(f.node))
        def _lib_ref(f):
            # CUDD's counter of the (regular) node: external references
            # plus one per edge from a live parent node (the stub library
            # does not store edges, so these are recomputed)
            n_ = f.node
            c = L.count.get(n_, 0) + L.count.get(~n_ & F, 0)
            seen = set()
            for w, k_ in L.count.items():
                if k_ <= 0 or w in (0, F):
                    continue
                w = w if not env['Cudd_IsComplement'](w) else ~w & F
                if w in seen or w in (n_, ~n_ & F):
                    continue
                seen.add(w)
                j = _top(w)
                for b_ in (0, 1):
                    ch = tt.cof(w, N, j, b_)
                    if ch in (n_, ~n_ & F):
                        c += 1
            return c
        Function.ref = property(_lib_ref)
        Function.__invert__ = lambda f: model.wrap(f.bdd, ~f.node & F)
        Function.__int__ = lambda f: env['_ddref_to_int'](f.node)
        Function.__eq__ = lambda f, g: (g is not None and
                                        f.node == g.node)
        Function.__hash__ = lambda f: hash(f.node)
        Manager.true = property(lambda b: model.wrap(b, F))
        Manager.false = property(lambda b: model.wrap(b, 0))

        def _declare(b, *names):
            for x in names:
                if x not in NAMES:
                    raise ValueError(x)
        Manager.declare = _declare

        def _reorder(b, order=None):
            if order is not None and dict(order) != {
                    x: j for j, x in enumerate(NAMES)}:
                raise NotReached('json load: identity order only')
        Manager.reorder = _reorder
        Manager.assert_consistent = lambda b: True
        Manager.level_of_var = lambda b, x: NAMES.index(x)

    # -- helpers
    def fn(self, t):
        """A live wrapper object for table t."""
        if self.name == 'buddy':
            return self.Function(t)
        f = self.wrap(self.mgr, t)
        return f

    def node_of(self, f):
        return f.node


# ======================================================================
# cudd_zdd.pyx: the hand-written ZDD recursions on a structural model
# ======================================================================
ZDD_FUNCTIONS = [
    '_find_or_add',
    '_forall_cache_id', '_forall', '_forall_root', '_c_forall',
    '_exist_cache_id', '_exist', '_exist_root', '_c_exist',
    '_disjoin_cache_id', '_disjoin', '_disjoin_root', '_c_disjoin',
    '_conjoin_cache_id', '_conjoin', '_conjoin_root', '_c_conjoin',
    '_compose', '_compose_root', '_c_compose',
    '_dict_to_zdd',
]

CAST_RE = re.compile(r'<\s*[A-Za-z_][\w\.]*(?:\s*\*)*\s*>')


def transliterate_c(block):
    """As `transliterate`, plus: C-typed parameters `Type *name` ->
    `name`, exception specifications after `)` dropped, C casts `<T>`
    removed."""
    out = []
    in_sig = True
    for k, l in enumerate(block):
        if k == 0:
            l = re.sub(r'^(\s*)(?:cpdef|cdef|def)\s+(?:[\w\.\*]+\s+)?(\w+)\($',
                       r'\1def \2(', l)
        elif in_sig:
            m = re.match(r'^(\s*)[A-Za-z_]\w*\s*\*\s*(\w+)\s*(,?)\s*$', l)
            if m:
                l = f'{m.group(1)}{m.group(2)}{m.group(3)}'
            m = re.match(r'^(.*\))\s*(?:except\??\s*\w+|noexcept)\s*:\s*$', l)
            if m:
                l = f'{m.group(1)}:'
                in_sig = False
            elif re.match(r'^.*\)\s*(->[^:]*)?:\s*$', l):
                in_sig = False
        elif re.match(r'^\s*cdef\s', l):
            m = re.match(
                r'^(\s*)cdef\s+[\w\.]+\s*\**\s*(\w+)\s*=\s*(.*)$', l)
            if not m:
                continue
            l = f'{m.group(1)}{m.group(2)} = {m.group(3)}'
        l = CAST_RE.sub('', l)
        l = re.sub(r'\bsizeof\([^)]*\)', '1', l)
        l = re.sub(r'\bNULL\b', 'None', l)
        out.append(l)
    src = textwrap.dedent('\n'.join(out))
    # a body that consists of a docstring only is fine in Python
    return src


class ZddModel:
    """cudd_zdd.pyx module-level recursions over `zddlib`."""

    def __init__(self, n=3):
        from . import zddlib
        import dd._utils as _utils
        self.zddlib = zddlib
        self.n = n
        self.names = NAMES[:n]
        self.lines = read('cudd_zdd')
        self.reached, self.not_reached = [], []
        self.dealloc_errors = 0
        self.new_manager()
        self._compile(_utils)

    def new_manager(self):
        self.mgr = self.zddlib.Manager(self.n)
        if hasattr(self, 'env'):
            self.env.update(self.zddlib.environment(self.mgr))
            self.Z.manager = self.mgr
        return self.mgr

    def _compile(self, _utils):
        model = self
        env = dict(_utils=_utils, __builtins__=__builtins__)
        env.update(self.zddlib.environment(self.mgr))
        self.env = env
        flo, fhi = find_class(self.lines, 'Function')
        fmeth = {}
        for m in ('init', '__dealloc__'):
            try:
                src = transliterate_c(extract(self.lines, m, flo, fhi))
                ns = env
                exec(compile('from __future__ import annotations\n' + src,
                             f'<zdd.Function.{m}>', 'exec'), ns)
                fmeth[m] = ns[m]
                self.reached.append(f'Function.{m}')
            except (NotReached, SyntaxError) as e:
                self.not_reached.append(f'Function.{m}: {e}')

        class Function:
            def __init__(self):
                self._ref = 0
                self.node = None
                self.bdd = None
                self.zdd = None
                self.manager = None

            def init(self, node, zdd):
                return fmeth['init'](self, node, zdd)

            @property
            def ref(self):
                return self.node.ref

            def __del__(self):
                try:
                    fmeth['__dealloc__'](self)
                except Exception as e:
                    model.dealloc_errors += 1
                    model.last_dealloc_error = repr(e)
        self.Function = Function
        env['Function'] = Function
        try:
            src = transliterate_c(extract(self.lines, 'wrap', top=True))
            exec(compile('from __future__ import annotations\n' + src,
                         '<zdd.wrap>', 'exec'), env)
            self.wrap = env['wrap']
            self.reached.append('wrap')
        except (NotReached, SyntaxError) as e:
            self.not_reached.append(f'wrap: {e}')
            raise NotReached('wrap')
        names = self.names

        class Z:
            """Mock of the ZDD manager object (trusted, written from the
            docstrings of the corresponding methods)."""

            def __init__(z):
                z.manager = model.mgr
                z.vars = set(names)
                z._index_of_var = {x: j for j, x in enumerate(names)}

            def _number_of_cudd_vars(z):
                return len(names)

            def level_of_var(z, var):
                return names.index(var)

            def var_at_level(z, level):
                return names[level]

            def var(z, var):
                t = tt.var(model.n, names.index(var))
                return model.fn(t)

            @property
            def true_node(z):
                # the constant node (not the universe `ZDD.true`)
                return model.wrap(z, model.mgr.one)

            @property
            def false(z):
                return model.wrap(z, model.mgr.zero)

            def find_or_add(z, var, low, high):
                j = names.index(var)
                r = model.mgr.get_node(j, high.node, low.node)
                return model.wrap(z, r)
        self.Z = Z()
        env['ZDD'] = Z
        for f in ZDD_FUNCTIONS:
            try:
                src = transliterate_c(extract(self.lines, f, top=True))
                exec(compile('from __future__ import annotations\n' + src,
                             f'<zdd.{f}>', 'exec'), env)
                self.reached.append(f)
            except (NotReached, SyntaxError) as e:
                self.not_reached.append(f'{f}: {e}')

        # unique-table faults are injected only inside the recursion roots
        for root in ('_exist_root', '_forall_root', '_disjoin_root',
                     '_conjoin_root', '_compose_root'):
            if root in env:
                env[root] = self._armed(env[root])

    def _armed(self, fn):
        def wrapper(*a):
            m = self.mgr
            m.armed = True
            try:
                return fn(*a)
            finally:
                m.armed = False
        return wrapper

    def fn(self, fam):
        node = self.mgr.node_for(fam)
        return self.wrap(self.Z, node)

    def call(self, name, *args):
        return self.env[name](*args)
