"""History engine: one manager, a model, total operations, invariants.

A history is `dict(cfg=..., ops=[[name, arg, ...], ...])`.  All arguments
are small non-negative integers interpreted modulo whatever is available
(held references, variables, levels), so every subsequence of a history
is again a valid history: delta debugging and Hypothesis shrinking are
sound, and a replay file is plain JSON.

The model consists of
  - `order`   : list of declared names by level,
  - `held`    : list of `Entry` (reference + truth table + extra increfs),
  - the ledger derived from `held` (external references per node).
After every step the full invariant set runs (`check`).
"""
import contextlib
import gc
import itertools
import random
import warnings

from . import tt
from .denote import Den, Builder, reachable
from . import inv
from .viol import Violation, require

BIN_OPS = sorted(tt.BINARY)
UN_OPS = list(tt.UNARY)


class Entry:
    __slots__ = ('ref', 't', 'extra')

    def __init__(self, ref, t):
        self.ref = ref      # int (dd.bdd) or Function (dd.autoref)
        self.t = t
        self.extra = 0      # explicit increfs on top of the holding one


def _mk_bdd_class():
    import dd.bdd as _bdd

    class BDD(_bdd.BDD):
        def __del__(self):
            pass
    return BDD


class World:
    def __init__(self, cfg=None):
        cfg = dict(cfg or {})
        self.cfg = cfg
        self.kind = cfg.get('kind', 'bdd')          # 'bdd' | 'autoref'
        self.nmax = cfg.get('nmax', 5)
        from . import fix as _fix
        # universe of names (some are concatenations of others)
        self.U = tuple(_fix.NAME_OF[ch] for ch in 'abcdefghijklmnop'[:self.nmax])
        if cfg.get('order'):
            cfg['order'] = [_fix.NAME_OF.get(x, x) for x in cfg['order']]
        self.n = self.nmax
        self.F = tt.full(self.n)
        self.idx = {x: j for j, x in enumerate(self.U)}
        import dd.bdd as _bdd
        self._bddmod = _bdd
        # a user who switches on the library's debug logging runs extra
        # self-checks inside reorderings; results must be the same
        import logging as _logging
        _lg = _logging.getLogger('dd.bdd')
        if not _lg.handlers:
            _lg.addHandler(_logging.NullHandler())
        _lg.propagate = False
        _lg.setLevel(1 if cfg.get('log') else _logging.WARNING)
        init = list(cfg.get('order') or self.U[:cfg.get('init_vars', 2)])
        ctor = cfg.get('ctor')       # None | 'levels' | 'copy_vars'
        levels_arg = None
        if ctor == 'levels' and init:
            # BDD({name: level}) with the names inserted in another order
            items = [(x, l) for l, x in enumerate(init)]
            random.Random(cfg.get('ctor_seed', 0)).shuffle(items)
            levels_arg = dict(items)
        if self.kind == 'autoref':
            import dd.autoref as _ar
            self._ar = _ar
            self.A = _ar.BDD(levels_arg) if levels_arg else _ar.BDD()
            self.b = self.A._bdd
            # (a manager that dies with references left runs
            # `inspect.stack()` in `__del__`, which keeps frames - and the
            # handles in their locals - of whatever history is running
            # then alive: the implicit check is switched off, the
            # explicit one is `shutdown()`)
            self.b.__class__ = _mk_bdd_class()
            # the wrapped manager's shutdown check is exercised
            # explicitly by `shutdown()`; silence the implicit one
            self.api = self.A
        else:
            self.b = _mk_bdd_class()(levels_arg) if levels_arg \
                else _mk_bdd_class()()
            self.A = None
            self.api = self.b
        self.order = []
        self.held = []
        self.log = []
        self.labels = {}
        self.nontrivial = set()
        self.reordering = False
        self._was_reordering = False
        self.sem = cfg.get('semantic', 1)
        if levels_arg:
            self.order = list(init)
            # a second manager built from the *same* dict object, then
            # reordered: this one must not notice
            twin = _mk_bdd_class()(levels_arg)
            if len(init) >= 2:
                twin.swap(0, 1)
            twin.declare('zz_twin')
        elif ctor == 'copy_vars' and init:
            # variables copied from a manager that was reordered after
            # declaring (its dict order differs from its level order)
            import dd._copy as _copy
            src = _mk_bdd_class()()
            src.declare(*sorted(init))
            _bdd.reorder(src, {x: l for l, x in enumerate(init)})
            if self.kind == 'autoref':
                srcA = self._ar.BDD()
                srcA.declare(*sorted(init))
                srcA.reorder({x: l for l, x in enumerate(init)})
                self._ar.copy_vars(srcA, self.A)
            else:
                _copy.copy_vars(src, self.b)
            self.order = list(init)
        else:
            for x in init:
                self.api.declare(x)
                self.order.append(x)
        self._starts = cfg.get('reorder_starts')
        if cfg.get('reordering'):
            self._set_reordering(True)

    # ------------------------------------------------------------ util
    def _set_reordering(self, on):
        if on and self._starts is not None:
            old = self._bddmod.REORDER_STARTS
            self._bddmod.REORDER_STARTS = self._starts
            try:
                self.api.configure(reordering=True)
            finally:
                self._bddmod.REORDER_STARTS = old
        else:
            self.api.configure(reordering=bool(on))
        self.reordering = bool(on)
        if on:
            self._was_reordering = True

    @contextlib.contextmanager
    def quiet(self):
        """Harness-side set-up that uses the raw `find_or_add` primitive
        or unreferenced intermediates runs with dynamic reordering
        switched off through the public `configure`."""
        if not self.reordering:
            yield
            return
        self.api.configure(reordering=False)
        try:
            yield
        finally:
            self._set_reordering(True)

    def clone(self):
        """Independent copy (dd.bdd kind only): used by the exhaustive
        enumeration of short histories."""
        if self.kind != 'bdd':
            raise ValueError('clone: dd.bdd worlds only')
        w = object.__new__(World)
        w.__dict__.update(self.__dict__)
        b = object.__new__(type(self.b))
        for k, v in self.b.__dict__.items():
            if isinstance(v, dict):
                v = dict(v)
            elif isinstance(v, set):
                v = set(v)
            b.__dict__[k] = v
        w.b = b
        w.api = b
        w.order = list(self.order)
        w.held = []
        for e in self.held:
            e2 = Entry(e.ref, e.t)
            e2.extra = e.extra
            w.held.append(e2)
        w.log = list(self.log)
        w.nontrivial = set(self.nontrivial)
        if hasattr(self, '_freed'):
            w._freed = set(self._freed)
        return w

    def label(self, s, k=1):
        self.labels[s] = self.labels.get(s, 0) + k

    def node(self, ref):
        return ref if isinstance(ref, int) else ref.node

    def ledger(self):
        d = {}
        for e in self.held:
            a = abs(self.node(e.ref))
            d[a] = d.get(a, 0) + 1 + e.extra
        return d

    def const(self, val):
        if self.kind == 'autoref':
            return self.A.true if val else self.A.false
        return 1 if val else -1

    def pick(self, i):
        """Operand i: (ref, table); indices 0/1 are the constants."""
        k = i % (len(self.held) + 2)
        if k == 0:
            return self.const(True), self.F
        if k == 1:
            return self.const(False), 0
        e = self.held[k - 2]
        return e.ref, e.t

    def project(self, t):
        """Make table `t` depend on declared variables only."""
        t &= self.F
        for x in self.U:
            if x not in self.order:
                t = tt.cof(t, self.n, self.idx[x], 0)
        return t

    def hold(self, ref, t, keep=1):
        """Check a fresh result and (optionally) keep it."""
        u = self.node(ref)
        require(abs(u) in self.b._succ, 'result.not_in_manager', dict(u=u))
        got = Den(self.b, self.U)(u)
        require(got == t, 'result.wrong_function',
                dict(u=u, got=got, want=t))
        if keep % 3 == 0:
            self.label('result.left_as_garbage')
            return
        if self.kind == 'bdd':
            self.b.incref(u)
        self.held.append(Entry(ref, t))

    def var_tt(self, name):
        return tt.var(self.n, self.idx[name])

    def decl(self, k):
        """k-th declared variable name (None if none declared)."""
        if not self.order:
            return None
        return self.order[k % len(self.order)]

    def names_of_mask(self, mask):
        return [x for l, x in enumerate(self.order) if (mask >> l) & 1]

    # -------------------------------------------------------- invariants
    def check(self, full=True):
        b = self.b
        # order model
        actual = [b._level_to_var.get(l) for l in range(len(b.vars))]
        if self.reordering or self._was_reordering:
            # dynamic reordering may sift at any node creation: any
            # permutation of the same names is legal; adopt it
            require(sorted(map(str, actual)) == sorted(self.order),
                    'order.model_mismatch',
                    dict(actual=actual, model=self.order))
            if actual != self.order:
                self.label('dynamic_reordering.changed_order')
                self.nontrivial.add('dynreorder')
            self.order = actual
            self._was_reordering = self.reordering
        else:
            require(actual == self.order, 'order.model_mismatch',
                    dict(actual=actual, model=self.order))
        led = self.ledger()
        den = Den(b, self.U)
        for k, e in enumerate(self.held):
            u = self.node(e.ref)
            require(u is not None and abs(u) in b._succ,
                    'held.deleted', dict(k=k, u=u))
            got = den(u)
            require(got == e.t, 'held.changed_function',
                    dict(k=k, u=u, got=got, want=e.t))
        inv.check_order(b)
        if self.A is not None:
            # the views offered by the dd.autoref wrapper
            A = self.A
            want = {x: l for l, x in enumerate(self.order)}
            require(dict(A.vars) == want, 'order.autoref_vars_stale',
                    dict(got=dict(A.vars), want=want))
            require(dict(A.var_levels) == want, 'order.autoref_var_levels')
            for x, l in want.items():
                require(A.level_of_var(x) == l and A.var_at_level(l) == x,
                        'order.autoref_level_queries')
        inv.check_structure(b)
        inv.check_counts(b, led)
        if full:
            inv.check_cache(b, den)
            if self.sem:
                inv.check_semantic(b, den)
        freed = getattr(self, '_freed', None)
        if freed:
            reused = freed & set(b._succ)
            if reused:
                self.label('gc.number_reused', len(reused))
                self.nontrivial.add('reuse')
                freed -= reused
        want = self.reordering
        require(b.configure()['reordering'] == want,
                'reordering.flag_changed',
                dict(want=want, last_len=b._last_len))
        require(b._reordering_context in (False, None),
                'reordering.context_left_set')

    def check_after_full_gc(self):
        led = self.ledger()
        roots = [u for u, c in led.items() if c > 0]
        want = reachable(self.b, roots)
        have = set(self.b._succ)
        require(have == want, 'gc.not_exactly_reachable',
                dict(extra=sorted(have - want)[:8],
                     missing=sorted(want - have)[:8]))

    # ------------------------------------------------------------- ops
    def step(self, op):
        name, *args = op
        fn = getattr(self, 'op_' + name, None)
        if fn is None:
            raise ValueError(f'unknown op {name}')
        self.log.append(list(op))
        fn(*args)
        self.check()

    def run(self, ops):
        self.check()
        for op in ops:
            self.step(op)

    # declarations ----------------------------------------------------
    def op_declare(self, k):
        x = self.U[k % self.nmax]
        form = (k >> 8) % 4
        if form == 0:
            names = [x]
        elif form == 1:
            names = [x, x]          # a name repeated in one call
        else:
            y = self.U[(k >> 4) % self.nmax]
            names = [x, y, x] if form == 2 else [y, x, y, x]
        self.api.declare(*names)
        for z in names:
            if z not in self.order:
                self.order.append(z)
                self.label('declare.new')
        if len(names) > 1:
            self.label('declare.repeated_name')

    def op_add_var(self, k, mode):
        x = self.U[k % self.nmax]
        n = len(self.order)
        mode %= 5
        if x in self.order:
            lvl = self.order.index(x)
            if mode in (0, 3, 4):
                r = self.api.add_var(x)
                require(r == lvl, 'add_var.wrong_level', dict(r=r, lvl=lvl))
            elif mode == 1:
                r = self.api.add_var(x, lvl)
                require(r == lvl, 'add_var.wrong_level', dict(r=r, lvl=lvl))
            else:
                if n < 2:
                    return
                bad = (lvl + 1) % n
                self.expect_error(
                    lambda: self.api.add_var(x, bad), ValueError,
                    'add_var.conflict_accepted')
        else:
            if mode in (0, 3):
                r = self.api.add_var(x)
                require(r == n, 'add_var.new_not_bottom', dict(r=r, n=n))
                self.order.append(x)
            elif mode in (1, 4):
                r = self.api.add_var(x, n)
                require(r == n, 'add_var.new_not_bottom', dict(r=r, n=n))
                self.order.append(x)
            else:
                if n < 1:
                    return
                self.expect_error(
                    lambda: self.api.add_var(x, k % n), ValueError,
                    'add_var.used_level_accepted')
            self.label('declare.new')

    def expect_error(self, fn, etype, what):
        try:
            fn()
        except etype:
            self.label('rejected')
            return
        raise Violation(what)

    def unused_names(self):
        full = {i for i, _, _ in self.b._succ.values()}
        return [x for l, x in enumerate(self.order) if l not in full]

    def op_undeclare(self, mask):
        """mask == 0: remove all unused; else the selected subset."""
        b = self.b
        if self.kind == 'autoref':
            return      # not exposed by dd.autoref
        target = b
        unused = set(self.unused_names())
        if mask == 0:
            sel = None
            want = unused
            r = target.undeclare_vars()
        else:
            if (mask >> 12) & 3 == 3 or not unused:
                # arbitrary subset (may contain used variables)
                sel = self.names_of_mask(mask)
            else:
                # a subset of the unused variables
                ul = [x for x in self.order if x in unused]
                sel = [x for k, x in enumerate(ul) if (mask >> k) & 1] \
                    or [ul[mask % len(ul)]]
            if not sel:
                return
            if not set(sel) <= unused:
                self.expect_error(
                    lambda: target.undeclare_vars(*sel), ValueError,
                    'undeclare.used_accepted')
                return
            want = set(sel)
            r = target.undeclare_vars(*sel)
        require(set(r) == want, 'undeclare.wrong_set',
                dict(got=sorted(r), want=sorted(want)))
        self.order = [x for x in self.order if x not in want]
        if want:
            self.label('undeclare.removed')

    def op_undeclare_unknown(self):
        self.expect_error(
            lambda: self.b.undeclare_vars('zz_unknown'), ValueError,
            'undeclare.unknown_accepted')

    def call(self, meth, keep, *pairs):
        """Call `self.api.<meth>` with the arguments `pairs` =
        (parameter name, value), ..., positionally or — every other
        value of a bit of `keep` — by keyword, as the signature allows."""
        f = getattr(self.api, meth)
        mk = (keep >> 8) % 4
        if mk and meth in ('let', 'cofactor', 'compose'):
            # any mapping will do for the substitution
            import collections as _c
            import types as _t
            wrap_ = [None, _t.MappingProxyType, _c.UserDict,
                     lambda d_: _c.ChainMap(d_)][mk]
            pairs = tuple((k_, wrap_(v_) if isinstance(v_, dict) else v_)
                          for k_, v_ in pairs)
            self.label('call.mapping_not_dict')
        kw = (keep >> 5) & 1
        if kw:
            self.label('call.keyword')

        def go():
            if kw:
                return f(**dict(pairs))
            return f(*[v for _, v in pairs])
        reusable = all(
            isinstance(v, (dict, set, frozenset, list, tuple, str, int,
                           bool, type(None), type({}.keys())))
            or type(v).__name__ in ('mappingproxy', 'UserDict', 'ChainMap')
            or hasattr(v, 'node')
            for _, v in pairs)
        if (keep >> 7) & 1 and reusable:
            # the caller's containers are handed in again, as they are
            # after the first call: the second result must be the same
            self.label('call.twice_same_arguments')
            r1 = go()
            if self.kind == 'bdd':
                # keep the first result alive while the second is made
                self.b.incref(r1)
                try:
                    r2 = go()
                finally:
                    self.b.decref(r1)
            else:
                r2 = go()
            require(self.node(r1) == self.node(r2),
                    'call.second_call_differs',
                    dict(method=meth, first=self.node(r1),
                         second=self.node(r2)))
            r1 = None
            return r2
        return go()

    # constructions -----------------------------------------------------
    def op_var(self, k, keep=1):
        x = self.decl(k)
        if x is None:
            return
        self.hold(self.call('var', keep, ('var', x)), self.var_tt(x), keep)

    def op_build(self, t, route, keep=1):
        if self.nmax > 6:
            # large universes: a function of three declared variables
            # (chosen by the high bits of t) given by the low 8 bits
            if not self.order:
                t = self.F if t & 1 else 0
            else:
                m = len(self.order)
                xs = [self.order[(t >> (8 + 4 * i)) % m] for i in range(3)]
                vs = [self.var_tt(x) for x in xs]
                r = 0
                for i in range(8):
                    if (t >> i) & 1:
                        c = self.F
                        for k in range(3):
                            c &= vs[k] if (i >> k) & 1 else (~vs[k] & self.F)
                        r |= c
                t = r
            route = 0 if route % 4 == 2 else route
        t = self.project(t)
        sub = route >> 2
        if sub % 3 == 1 and len(self.order) >= 2:
            # a function of a drawn subset of the declared variables, so
            # that some declared variables stay unused
            keep_ = [x for l, x in enumerate(self.order)
                     if (sub >> (2 + l)) & 1] or [self.order[sub % len(
                         self.order)]]
            t = tt.exists(t, self.n, [self.idx[x] for x in self.order
                                      if x not in keep_])
            self.label('build.subset_of_vars')
        route %= 4
        if route == 0:
            with self.quiet():
                u = Builder(self.b, self.U)(t)
                if self.kind == 'autoref':
                    u = self._ar.Function(u, self.A)
        elif route == 1 and self.nmax > 6:
            with self.quiet():
                u = Builder(self.b, self.U)(t)
                if self.kind == 'autoref':
                    u = self._ar.Function(u, self.A)
        elif route == 1:
            with (self.quiet() if self.kind == 'bdd'
                  else contextlib.nullcontext()):
                u = self.const(False)
                for i in tt.models(t, self.n):
                    # only over declared variables
                    if any((i >> self.idx[x]) & 1 for x in self.U
                           if x not in self.order):
                        continue
                    c = self.api.cube({
                        x: bool((i >> self.idx[x]) & 1)
                        for x in self.order})
                    u = self.api.apply('or', u, c)
        elif route == 2:
            u = self.api.add_expr(self.formula(t))
        else:
            # composition route: f = ite(x, f1, f0) via let
            if not self.order:
                u = self.const(t == self.F)
            else:
                u = self._build_by_let(t)
        self.hold(u, t, keep)
        self.label(f'build.route{route}')

    def _build_by_let(self, t):
        # h = ite(z, hi, lo) with z a declared variable, then substitute
        # z := g where g is z itself composed through let (exercises let)
        x = self.order[0]
        j = self.idx[x]
        lo = tt.cof(t, self.n, j, 0)
        hi = tt.cof(t, self.n, j, 1)
        bd = Builder(self.b, self.U)
        if self.kind == 'autoref':
            F = self._ar.Function
            with self.quiet():
                plo, phi = F(bd(lo), self.A), F(bd(hi), self.A)
            g = self.A.var(x)
            h = self.A.ite(g, phi, plo)
            return self.A.let({x: g}, h)
        b = self.b
        with self.quiet():
            plo, phi = bd(lo), bd(hi)
            b.incref(plo)
            b.incref(phi)
        g = b.var(x)
        b.incref(g)
        h = b.ite(g, phi, plo)
        b.incref(h)
        r = b.let({x: g}, h)
        for z in (plo, phi, g, h):
            b.decref(z)
        return r

    def formula(self, t):
        """DNF of `t` over the declared variables (documented syntax)."""
        if t == 0:
            return 'FALSE'
        if t == self.F:
            return 'TRUE'
        terms = []
        free = [x for x in self.U if x not in self.order]
        for i in tt.models(t, self.n):
            if any((i >> self.idx[x]) & 1 for x in free):
                continue
            lits = [x if (i >> self.idx[x]) & 1 else f'~ {x}'
                    for x in self.order]
            terms.append('(' + ' /\\ '.join(lits) + ')')
        return ' \\/ '.join(terms)

    def op_cube(self, mask, vals, keep=1):
        d = {}
        t = self.F
        for l, x in enumerate(self.order):
            if (mask >> l) & 1:
                v = bool((vals >> l) & 1)
                d[x] = v
                xv = self.var_tt(x)
                t &= xv if v else (~xv & self.F)
        arg = d
        if d and all(d.values()):
            # a positive cube may be given as any iterable of names
            k = (mask + vals) % 5
            if k == 1:
                arg = list(d)
            elif k == 2:
                arg = set(d)
            elif k == 3:
                arg = (x for x in list(d))
            elif k == 4:
                arg = tuple(d)
        self.hold(self.call('cube', keep, ('dvars', arg)), t, keep)

    def op_find_or_add(self, k, i, j, keep=1):
        """Node `ite(x, hi, lo)` where hi, lo are projected so that they
        lie below x (the documented precondition of find_or_add)."""
        x = self.decl(k)
        if x is None:
            return
        lvl = self.order.index(x)
        (ri, ti), (rj, tj) = self.pick(i), self.pick(j)
        above = [self.idx[y] for y in self.order[:lvl + 1]]
        lo_t = tt.exists(ti, self.n, above)
        hi_t = tt.forall(tj, self.n, above)
        bd = Builder(self.b, self.U)
        xv = self.var_tt(x)
        want = tt.ite(xv, hi_t, lo_t, self.n)
        if self.kind == 'autoref':
            F = self._ar.Function
            with self.quiet():
                lo, hi = F(bd(lo_t), self.A), F(bd(hi_t), self.A)
            r = self.A.find_or_add(x, lo, hi)
        else:
            with self.quiet():
                lo, hi = bd(lo_t), bd(hi_t)
                r = self.b.find_or_add(lvl, lo, hi)
        self.hold(r, want, keep)

    # operators ---------------------------------------------------------
    def op_apply(self, o, i, j, keep=1):
        op = BIN_OPS[o % len(BIN_OPS)]
        (u, tu), (v, tv) = self.pick(i), self.pick(j)
        if self.kind == 'autoref' and (keep >> 9) & 1:
            self.label('apply.temporary_operands')
            F = self.F
            r = self.A.apply(op, u & ~v, v | ~u)
            self.hold(r, tt.BINARY[op](tu & ~tv & F, (tv | ~tu) & F,
                                       self.n), keep)
            return
        r = self.call('apply', keep, ('op', op), ('u', u), ('v', v))
        self.hold(r, tt.BINARY[op](tu, tv, self.n), keep)

    def op_not(self, o, i, keep=1):
        op = UN_OPS[o % 3]
        u, tu = self.pick(i)
        self.hold(self.api.apply(op, u), ~tu & self.F, keep)

    def op_ite(self, i, j, k, keep=1):
        (g, tg), (u, tu), (v, tv) = self.pick(i), self.pick(j), self.pick(k)
        if self.kind == 'autoref' and (keep >> 9) & 1:
            # operands that only the argument list references
            self.label('ite.temporary_operands')
            F = self.F
            r = self.A.ite(g | ~u, u & v, v.implies(g))
            self.hold(r, tt.ite((tg | ~tu) & F, tu & tv, (~tv | tg) & F,
                                self.n), keep)
            return
        self.hold(self.call('ite', keep, ('g', g), ('u', u), ('v', v)),
                  tt.ite(tg, tu, tv, self.n), keep)

    def op_funcop(self, o, i, j, keep=1):
        """dd.autoref Function operators."""
        if self.kind != 'autoref':
            return self.op_apply(o, i, j, keep)
        (u, tu), (v, tv) = self.pick(i), self.pick(j)
        n, F = self.n, self.F
        o %= 9
        if o == 0:
            self.hold(~u, ~tu & F, keep)
        elif o == 1:
            self.hold(u & v, tu & tv, keep)
        elif o == 2:
            self.hold(u | v, tu | tv, keep)
        elif o == 3:
            self.hold(u.implies(v), tt.c_implies(tu, tv, n), keep)
        elif o == 4:
            self.hold(u.equiv(v), tt.c_equiv(tu, tv, n), keep)
        elif o == 5:
            require((u <= v) == ((tu & ~tv & F) == 0), 'function.le')
        elif o == 6:
            require((u < v) == ((tu & ~tv & F) == 0 and tu != tv),
                    'function.lt')
        elif o == 7:
            require((u == v) == (tu == tv), 'function.eq')
        else:
            require((u != v) == (tu != tv), 'function.ne')

    def op_quantify(self, i, mask, forall, form=0, keep=1):
        u, tu = self.pick(i)
        names = self.names_of_mask(mask)
        js = [self.idx[x] for x in names]
        fa = bool(forall % 2)
        want = tt.forall(tu, self.n, js) if fa else tt.exists(tu, self.n, js)
        form %= 3
        if form == 0:
            kind_ = (mask >> 13) % 4
            qarg = (set(names) if kind_ == 0 else frozenset(names)
                    if kind_ == 1 else
                    tuple(list(names) + list(names)[:(mask >> 11) % 3])
                    if kind_ == 2 else {x: None for x in names}.keys())
            r = self.call('quantify', keep, ('u', u),
                          ('qvars', qarg),
                          ('forall', int(fa) if (mask >> 12) & 1 else fa))
        elif form == 1:
            kind_ = (mask >> 13) % 4
            rep_ = list(names) + list(names)[:(mask >> 11) % 3]
            qarg = (rep_ if kind_ == 0 else tuple(rep_)
                    if kind_ == 1 else frozenset(names) if kind_ == 2
                    else {x: True for x in names}.keys())
            r = self.call('forall' if fa else 'exist', keep,
                          ('qvars', qarg), ('u', u))
        else:
            # the quantified variables are those of the cube, whatever
            # the polarity of its literals
            c = self.api.cube({x: not ((mask >> (8 + l % 8)) & 1)
                               for l, x in enumerate(names)})
            r = self.api.apply('\\A' if fa else '\\E', c, u)
        self.hold(r, want, keep)

    def op_let_const(self, i, mask, vals, keep=1):
        u, tu = self.pick(i)
        d = {}
        for l, x in enumerate(self.order):
            if (mask >> l) & 1:
                d[x] = bool((vals >> l) & 1)
        if not d:
            return
        want = tt.cofactor(tu, self.n, {self.idx[x]: v for x, v in d.items()})
        if self.kind == 'bdd' and (keep >> 6) & 1:
            self.label('call.cofactor_direct')
            r = self.call('cofactor', keep, ('u', u), ('values', d))
        else:
            r = self.call('let', keep, ('definitions', d), ('u', u))
        self.hold(r, want, keep)

    def op_let_rename(self, i, mask, targets, keep=1):
        u, tu = self.pick(i)
        n = len(self.order)
        d = {}
        for l, x in enumerate(self.order):
            if (mask >> l) & 1:
                d[x] = self.order[(targets >> (3 * l)) % n]
        if not d:
            return
        want = tt.rename(tu, self.n,
                         {self.idx[x]: self.idx[y] for x, y in d.items()})
        r = self.call('let', keep, ('definitions', d), ('u', u))
        self.hold(r, want, keep)

    def op_let_compose(self, i, mask, j1, j2, keep=1):
        u, tu = self.pick(i)
        d, dt = {}, {}
        js = [j1, j2, j1 + j2, j1 * 3 + 1, j2 * 5 + 2, j1 + 7, j2 + 11, 3]
        for l, x in enumerate(self.order):
            if (mask >> l) & 1:
                g, tg = self.pick(js[l % len(js)])
                d[x] = g
                dt[self.idx[x]] = tg
        if not d:
            return
        want = tt.compose(tu, self.n, dt)
        if self.kind == 'bdd' and len(d) == 1 and (keep >> 6) & 1:
            self.label('call.compose_direct')
            r = self.call('compose', keep, ('f', u), ('var_sub', d))
        else:
            r = self.call('let', keep, ('definitions', d), ('u', u))
        self.hold(r, want, keep)
        self.label('let.compose.multi' if len(d) > 1 else 'let.compose.one')

    def op_add_expr(self, o, i, j, keep=1):
        op = ['/\\', '\\/', '=>', '<=>', '#', '-', '&', '|', '->', '<->',
              '^', '&&', '||'][o % 13]
        (u, tu), (v, tv) = self.pick(i), self.pick(j)
        cu = {'/\\': tt.c_and, '&': tt.c_and, '&&': tt.c_and,
              '\\/': tt.c_or, '|': tt.c_or, '||': tt.c_or,
              '=>': tt.c_implies, '->': tt.c_implies,
              '<=>': tt.c_equiv, '<->': tt.c_equiv,
              '#': tt.c_xor, '^': tt.c_xor, '-': tt.c_diff}[op]
        nu, nv = self.node(u), self.node(v)
        if self.kind == 'bdd' and (o >> 5) & 1 and not self.reordering:
            # `@n` of a node that exists but that nobody references (a
            # result left as garbage, no collection since)
            zeros = sorted(z for z, c in self.b._ref.items()
                           if c == 0 and z != 1)
            if zeros:
                nu = zeros[(o >> 6) % len(zeros)]
                if (o >> 4) & 1:
                    nu = -nu
                tu = Den(self.b, self.U)(nu)
                self.label('add_expr.reference_to_unreferenced_node')
        s = f'@{nu} {op} ~ @{nv}'
        want = cu(tu, ~tv & self.F, self.n)
        self.hold(self.call('add_expr', keep, ('expr' if self.kind == 'bdd' else 'e', s)), want, keep)

    def op_to_expr(self, i):
        u, tu = self.pick(i)
        s = self.api.to_expr(u)
        r = self.api.add_expr(s)
        require(self.node(r) == self.node(u), 'to_expr.round_trip',
                dict(u=self.node(u), r=self.node(r), s=s))

    def op_queries(self, i):
        """Read-only queries must agree with the table."""
        # support of every held reference (cheap), the full battery on
        # operand i
        for e in self.held:
            sup_e = self.api.support(e.ref)
            want_e = {self.U[j] for j in tt.support(e.t, self.n)}
            require(set(sup_e) == want_e, 'support.wrong',
                    dict(got=sorted(sup_e), want=sorted(want_e)))
        for e in self.held:
            c_e = self.api.count(e.ref)
            k_e = len(tt.support(e.t, self.n))
            require(c_e == tt.popcount(e.t) >> (self.n - k_e),
                    'count.wrong', dict(got=c_e))
        # ... and of every stored node (held or not), through the
        # wrapped dd.bdd manager: read-only
        den = Den(self.b, self.U)
        for x in sorted(self.b._succ)[:80]:
            sup_x = self.b.support(x)
            want_x = {self.U[j] for j in tt.support(den(x), self.n)}
            require(set(sup_x) == want_x, 'support.wrong',
                    dict(node=x, got=sorted(sup_x), want=sorted(want_x)))
        u, tu = self.pick(i)
        sup = self.api.support(u)
        want = {self.U[j] for j in tt.support(tu, self.n)}
        require(set(sup) == want, 'support.wrong',
                dict(got=sorted(sup), want=sorted(want)))
        c = self.api.count(u)
        base = tt.popcount(tu) >> (self.n - len(want))
        require(c == base, 'count.wrong', dict(got=c, want=base))
        # exactly as many variables as the support has: accepted; one
        # fewer: refused
        require(self.api.count(u, len(want)) == base, 'count.nvars_wrong',
                dict(k=len(want)))
        if want:
            self.expect_error(
                lambda: self.api.count(u, len(want) - 1),
                (ValueError, AssertionError), 'count.too_few_accepted')
        if i % 7 == 0:
            big = len(want) + 15000 + i % 5000
            require(self.api.count(u, big) == base << (big - len(want)),
                    'count.nvars_wrong', dict(k=big))
        k = len(want) + 1 + i % 3
        c2 = self.api.count(u, k)
        require(c2 == base << (k - len(want)), 'count.nvars_wrong',
                dict(got=c2, k=k))
        if self.kind == 'bdd':
            for x in self.order:
                require(bool(self.b.is_essential(u, x)) == (x in want),
                        'is_essential.wrong', dict(x=x))
        # pick_iter with the default care set: exactly the models over
        # the support
        items = list(self.api.pick_iter(u))
        require(len(items) == base, 'pick_iter.default_count',
                dict(got=len(items), want=base))
        seen = set()
        for d in items:
            require(set(d) == want, 'pick_iter.default_not_support',
                    dict(d=d, support=sorted(want)))
            idx = 0
            for x, v in d.items():
                if v:
                    idx |= 1 << self.idx[x]
            # complete with zeros outside the support: still a model
            require((tu >> idx) & 1, 'pick_iter.not_model', dict(d=d))
            require(idx not in seen, 'pick_iter.overlap', dict(d=d))
            seen.add(idx)
        p = self.api.pick(u)
        require((p is None) == (tu == 0), 'pick.none_iff_false',
                dict(p=p))
        # an assignment maps names to `bool`, so that it can be handed to
        # `let`: substituting it gives TRUE
        for d in items[:3] + ([p] if p is not None else []):
            require(all(type(v) is bool for v in d.values()),
                    'pick.values_not_bool', dict(d=repr(d)))
            if d and set(d) >= want:
                r = self.api.let(dict(d), u)
                require(self.node(r) == 1, 'pick.let_of_model_not_true',
                        dict(d=repr(d)))
                r = None
        care = set(self.order[:1 + i % max(1, len(self.order))])
        cw = care | want
        form = (i >> 6) % 4
        if form == 1:
            care_arg = sorted(cw)
        elif form == 2:
            care_arg = sorted(cw, reverse=True)
        elif form == 3 and cw:
            # a list built by concatenating supports names a variable twice
            care_arg = sorted(cw) + sorted(cw)[:1 + i % 2]
            self.label('pick_iter.care_list_with_repeated_name')
        else:
            care_arg = set(cw)
        acc = 0
        for d in self.api.pick_iter(u, care_vars=care_arg):
            require(cw <= set(d), 'pick_iter.care_var_missing',
                    dict(d=d))
            require(all(type(v) is bool for v in d.values()),
                    'pick.values_not_bool', dict(d=repr(d)))
            # the total assignments that complete d
            m_d = self.F
            for x, v in d.items():
                xv = self.var_tt(x)
                m_d &= xv if v else (~xv & self.F)
            require(m_d & ~tu & self.F == 0, 'pick_iter.not_model',
                    dict(d=d))
            require(m_d & acc == 0, 'pick_iter.overlap', dict(d=d))
            acc |= m_d
        require(acc == tu, 'pick_iter.care_not_all_models',
                dict(missing=tt.popcount(tu & ~acc)))
        self.label('queries')

    def op_mutate_views(self, i, k):
        """Containers handed out by the manager belong to the caller:
        editing them must not reach the manager, nor the next answer."""
        k %= 4
        lv = {x: l for l, x in enumerate(self.order)}
        if k == 0:
            d = self.api.var_levels
            require(dict(d) == lv, 'var_levels.wrong', dict(got=dict(d)))
            # the usual way to derive another order from the current one
            names = list(d)
            if len(names) >= 2:
                d[names[0]], d[names[-1]] = d[names[-1]], d[names[0]]
            d['zz_scratch'] = len(names)
            d = None
            d2 = self.api.var_levels
            require(dict(d2) == lv, 'var_levels.changed_by_editing_a_copy',
                    dict(got=dict(d2)))
            self.label('mutate_views.var_levels')
            return
        if not self.held:
            return
        e = self.held[i % len(self.held)]
        u, tu = e.ref, e.t
        want = {self.U[j] for j in tt.support(tu, self.n)}
        if k == 1:
            s1 = self.api.support(u)
            require(set(s1) == want, 'support.wrong')
            s1 |= {'zz_scratch'}
            for x in list(want)[:1]:
                s1.discard(x)
            require(set(self.api.support(u)) == want,
                    'support.changed_by_editing_a_result')
            if self.kind == 'autoref':
                s2 = u.support
                require(set(s2) == want, 'support.wrong')
                s2 |= set(self.order)
                s2.add('zz_scratch')
                require(set(u.support) == want,
                        'support.changed_by_editing_a_result')
            self.label('mutate_views.support')
        elif k == 2:
            p = self.api.pick(u)
            if p is not None:
                for x in list(p):
                    p[x] = not p[x]
                p['zz_scratch'] = True
                p2 = self.api.pick(u)
                idx = 0
                for x, v in p2.items():
                    require(x in want, 'pick.not_over_support',
                            dict(p=p2))
                    if v:
                        idx |= 1 << self.idx[x]
                require((tu >> idx) & 1, 'pick.not_model', dict(p=p2))
            self.label('mutate_views.pick')
        else:
            a = abs(self.node(u))
            ds = self.b.descendants([self.node(u)])
            want_nodes = reachable(self.b, [a])
            require(set(ds) == want_nodes, 'descendants.wrong')
            ds.clear()
            require(set(self.b.descendants([self.node(u)])) == want_nodes,
                    'descendants.changed_by_editing_a_result')
            self.label('mutate_views.descendants')

    def op_compare_all(self, k):
        """All comparisons among a few held references (dd.autoref
        Function operators; for dd.bdd the same relations via apply)."""
        es = self.held[:3] + self.held[-3:]
        F = self.F
        for x in es:
            for y in es:
                tu, tv = x.t, y.t
                le = (tu & ~tv & F) == 0
                if self.kind == 'autoref':
                    u, v = x.ref, y.ref
                    require((u <= v) == le, 'function.le',
                            dict(u=u.node, v=v.node))
                    require((u < v) == (le and tu != tv), 'function.lt')
                    require((u == v) == (tu == tv), 'function.eq')
                    require((u != v) == (tu != tv), 'function.ne')
                else:
                    r = self.b.apply('=>', x.ref, y.ref)
                    require((r == 1) == le, 'implies.validity',
                            dict(u=x.ref, v=y.ref))
        # membership, and Functions as elements of sets / keys of dicts
        tabs = {x.t for x in es}
        for x in es:
            require(x.ref in self.api, 'contains.held_reference_missing')
        if self.kind == 'autoref':
            fs = {x.ref for x in es}
            require(len(fs) == len(tabs), 'function.hash_eq_inconsistent',
                    dict(got=len(fs), want=len(tabs)))
            byf = {}
            for x in es:
                byf[x.ref] = x.t
            for x in es:
                require(byf[x.ref] == x.t, 'function.dict_lookup')
            require(len(self.A) == len(self.b), 'len.wrapper_differs')
        else:
            missing = max(self.b._succ) + 1 + k % 3
            require(missing not in self.b and -missing not in self.b,
                    'contains.unknown_node_accepted')
            require(len({x.ref for x in es}) == len(tabs),
                    'canon.equal_functions_different_refs')
        self.label('compare_all')

    def op_churn(self, seed, mode):
        """Fill the caches, release everything, collect (explicitly or
        through a reordering), build as many new functions (which re-use
        the freed node numbers) and ask the same questions again."""
        k = min(len(self.held), 5)
        if k == 0 or not self.order:
            return
        self.op_compare_all(0)
        self.recompute()
        for i_ in range(min(len(self.held), 4)):
            self.op_to_expr(i_ + 2)
        tabs = [e.t for e in self.held[:3] + self.held[-3:]][:k]
        while self.held:
            self.op_drop(0)
        mode %= 4
        if mode == 0:
            self.op_gc(0)
        elif mode == 1:
            self.op_sift()
        elif mode == 2:
            self.op_reorder_to(seed)
        else:
            self.op_swap(seed, 0)
        rnd = random.Random(seed)
        if seed % 3 and len(tabs) > 1:
            # the same functions in another order (and polarity): the same
            # node numbers come back with other meanings
            sh = 1 + seed % (len(tabs) - 1)
            tabs = tabs[sh:] + tabs[:sh]
            for i_, t_ in enumerate(tabs):
                if (seed >> (3 + i_)) & 1:
                    t_ = ~t_ & self.F
                self.hold(self._raw_build(t_), t_, 1)
        else:
            for _ in range(k):
                self.op_build(rnd.randrange(1 << 16) * 65537 % (self.F + 1),
                              4 * rnd.randrange(1, 4000), 1)
        self.op_compare_all(0)
        self.recompute()
        for i_ in range(min(len(self.held), 4)):
            self.op_to_expr(i_ + 2)
        self.label('churn')

    def _raw_build(self, t):
        with self.quiet():
            u = Builder(self.b, self.U)(t)
            if self.kind == 'autoref':
                u = self._ar.Function(u, self.A)
        return u

    def op_fork(self, a, c):
        """copy.copy(manager): the copy must be an equal, independent
        manager; work done in the copy must not leak into the original
        (and vice versa)."""
        if self.kind != 'bdd':
            return
        import copy
        m = copy.copy(self.b)
        try:
            led = self.ledger()
            inv.check_order(m)
            inv.check_structure(m)
            inv.check_counts(m, led)
            dm = Den(m, self.U)
            for e in self.held:
                require(dm(e.ref) == e.t, 'fork.copy_differs')
            # new nodes in the copy, in another order than the original
            # will create them
            t = self.project(a * 2654435761 & self.F)
            Builder(m, self.U)(t)
            (u, tu), (v, tv) = self.pick(a), self.pick(c)
            for op in ('and', 'xor', '=>'):
                r = m.apply(op, u, v)
                require(Den(m, self.U)(r) == tt.BINARY[op](tu, tv, self.n),
                        'fork.wrong_result_in_copy', dict(op=op))
            t2 = self.project((c * 40503 + a) & self.F)
            Builder(self.b, self.U)(t2)
            for op in ('and', 'xor', '=>'):
                r = self.b.apply(op, u, v)
                require(Den(self.b, self.U)(r) ==
                        tt.BINARY[op](tu, tv, self.n),
                        'fork.wrong_result_in_original', dict(op=op))
            # structural changes in the copy must not reach the original
            if len(m.vars) >= 2:
                before = (dict(self.b.vars), dict(self.b._level_to_var))
                m.swap(0, 1)
                require((dict(self.b.vars), dict(self.b._level_to_var))
                        == before, 'fork.swap_in_copy_changed_original')
                inv.check_order(self.b)
                dm = Den(m, self.U)
                for e in self.held:
                    require(dm(e.ref) == e.t, 'fork.copy_changed_by_swap')
            inv.check_structure(m)
            inv.check_cache(m, Den(m, self.U))
        finally:
            # the copy is a plain dd.bdd.BDD: silence its shutdown check
            for k_ in m._ref:
                m._ref[k_] = 0
            m._ref[1] = 1
        self.label('fork')

    def op_file_roundtrip(self, i, fmt):
        """Dump held references and load them back (a normal operation
        that must succeed whatever failed before)."""
        import os
        if not self.held:
            return
        es = self.held[:2] + self.held[-1:]
        variant = (fmt >> 1) % 4
        fmt %= 2
        if fmt == 1 and self.kind != 'autoref':
            fmt = 0
        p = os.path.join(os.getcwd(), 'Rt_Op' + ['.p', '.json'][fmt])
        roots = [e.ref for e in es]
        as_dict = variant in (1, 3)
        if as_dict:
            roots = {f'r{k_}': r_ for k_, r_ in enumerate(roots)}
        kw = {}
        if fmt == 0 and variant >= 2:
            kw = dict(levels=False)
        with self.quiet():
            self.api.dump(p, roots=roots)
            try:
                back = self.api.load(p, **kw)
            finally:
                os.remove(p)
        require(len(back) == len(es), 'file_roundtrip.length')
        if as_dict:
            require(list(back) == list(roots), 'file_roundtrip.keys',
                    dict(got=list(back)))
            back = [back[k_] for k_ in roots]
        for r, e in zip(back, es):
            self.hold(r, e.t, 1)
        roots = back = None
        self.label('file_roundtrip')
        self.nontrivial.add('file_roundtrip')

    REPEATABLE = {'apply', 'not', 'ite', 'funcop', 'quantify', 'let_const',
                  'let_rename', 'let_compose', 'cube', 'var', 'add_expr',
                  'to_expr', 'queries', 'build', 'find_or_add'}

    def op_repeat(self, k):
        """Re-issue an earlier call with the same arguments (after
        whatever happened in between: collections, swaps, undeclarations,
        re-used node numbers).  Arguments are interpreted against the
        current state, so this is an ordinary, valid call."""
        cands = [op for op in self.log[:-1] if op[0] in self.REPEATABLE]
        if not cands:
            return
        op = cands[-1 - (k % min(len(cands), 6))]
        getattr(self, 'op_' + op[0])(*op[1:])
        self.label('repeat')

    # references ------------------------------------------------------
    def op_incref(self, i):
        if not self.held:
            return
        e = self.held[i % len(self.held)]
        if self.kind == 'autoref':
            if abs(e.ref.node) == 1:
                return
            self.A.incref(e.ref)
        else:
            self.b.incref(e.ref)
        e.extra += 1

    def op_decref(self, i):
        if not self.held:
            return
        e = self.held[i % len(self.held)]
        if e.extra > 0:
            if self.kind == 'autoref':
                # the reference may be given back through any handle of
                # the same node
                others = [x.ref for x in self.held
                          if x is not e and x.ref.node == e.ref.node]
                if (i >> 7) & 1:
                    via = others[(i >> 8) % len(others)] if others \
                        else self._ar.Function(e.ref.node, self.A)
                    self.label('decref.through_another_handle')
                else:
                    via = e.ref
                self.A.decref(via)
                via = None
            else:
                self.b.decref(e.ref)
            e.extra -= 1

    def op_decref_zero(self, i):
        """decref on a node whose count is zero: documented to warn and
        do nothing."""
        if self.kind != 'bdd':
            return
        zeros = sorted(u for u, c in self.b._ref.items() if c == 0)
        if not zeros:
            return
        u = zeros[i % len(zeros)]
        if (i >> 4) & 1:
            # a process that turns warnings into errors (as the package's
            # own pytest.ini does): the call fails, nothing changes
            with warnings.catch_warnings():
                warnings.simplefilter('error')
                try:
                    self.b.decref(u)
                except UserWarning:
                    self.label('decref.zero.warning_as_error')
            require(self.b._ref[u] == 0, 'decref.below_zero')
            return
        with warnings.catch_warnings(record=True) as w:
            warnings.simplefilter('always')
            self.b.decref(u)
        require(self.b._ref[u] == 0, 'decref.below_zero')
        require(any(issubclass(x.category, UserWarning) for x in w),
                'decref.no_warning')
        self.label('decref.zero')

    def op_drop(self, i):
        if not self.held:
            return
        e = self.held.pop(i % len(self.held))
        if self.kind == 'bdd':
            for _ in range(1 + e.extra):
                self.b.decref(e.ref)
        else:
            for _ in range(e.extra):
                self.A.decref(e.ref)    # manual references first
            e.extra = 0
            a = abs(e.ref.node)
            led = self.ledger().get(a, 0)
            deg = inv.indegree(self.b).get(a, 0)
            if led == 0 and deg == 0 and a != 1:
                self.label('drop.last_owner')
            e.ref = None    # CPython runs Function.__del__ now
        self.label('drop')

    def op_copy_handle(self, i, mode=0):
        if self.kind != 'autoref' or not self.held:
            return
        e = self.held[i % len(self.held)]
        if mode % 2:
            f = self.A._add_int(int(e.ref))
        else:
            f = self._ar.Function(int(e.ref), self.A)
        self.held.append(Entry(f, e.t))

    def op_traverse(self, i, which):
        """low / high / succ create new handles (autoref) or refs."""
        if not self.held:
            return
        e = self.held[i % len(self.held)]
        u = self.node(e.ref)
        if abs(u) == 1:
            if self.kind == 'autoref':
                require(e.ref.low is None and e.ref.high is None
                        and e.ref.var is None, 'traverse.terminal')
            return
        reg = e.t if u > 0 else (~e.t & self.F)
        if self.kind == 'autoref':
            f = e.ref
            x = f.var
            j = self.idx[x]
            lo_t, hi_t = tt.cof(reg, self.n, j, 0), tt.cof(reg, self.n, j, 1)
            require(f.negated == (u < 0), 'traverse.negated')
            require(self.A.var_at_level(f.level) == x and
                    f.level == self.order.index(x),
                    'traverse.var_not_at_level',
                    dict(var=x, level=f.level))
            require(x in f.support and int(f) == u and
                    len(f) == f.dag_size ==
                    len(reachable(self.b, [abs(u)])),
                    'traverse.views')
            which %= 3
            if which == 0:
                self.hold(f.low, lo_t, 1)
            elif which == 1:
                self.hold(f.high, hi_t, 1)
            else:
                lvl, lo, hi = self.A.succ(f)
                require(lvl == self.order.index(x), 'traverse.level')
                self.hold(lo, lo_t, 1)
                self.hold(hi, hi_t, 1)
        else:
            lvl, lo, hi = self.b.succ(u)
            j = self.idx[self.order[lvl]]
            self.hold(lo, tt.cof(reg, self.n, j, 0), 1)
            self.hold(hi, tt.cof(reg, self.n, j, 1), 1)

    def op_views(self, mask):
        """Structural views (descendants, sizes, networkx and DOT
        exports, Function traversal) of some held references: the
        checker of C18, in the middle of a history."""
        if not self.held:
            return
        from .props import c18
        import os
        m = len(self.held)
        es = [self.held[(mask >> (4 * i)) % m]
              for i in range(1 + (mask >> 14) % 3)]
        refs = {e.t: self.node(e.ref) for e in es}
        roots_t = sorted(refs)      # each root once
        if self.kind == 'autoref':
            A = self.A
        else:
            A = getattr(self, '_viewer', None)
            if A is None or A._bdd is not self.b:
                import dd.autoref as _ar
                A = _ar.BDD()
                A._bdd = self.b
                self._viewer = A
            A.vars = self.b.vars
        with self.quiet():
            c18.check_views(self.b, A, self.U, self.n, roots_t, refs,
                            os.getcwd(), 'hv')
        require(len(self.b) == len(self.b._succ) == len(A),
                'len_bdd.wrong')
        self.label('views')
        self.nontrivial.add('views')

    # a second manager ----------------------------------------------
    PEER_OPS = ['swap', 'reorder_to', 'declare', 'build', 'gc', 'drop',
                'sift', 'apply', 'build', 'declare', 'swap', 'undeclare']

    def _get_peer(self):
        """A second manager of the same kind over the same universe of
        names, created on first use: other order, possibly lacking the
        top variable of this one."""
        peer = getattr(self, 'peer', None)
        if peer is None:
            init = list(reversed(self.order))
            k = len(self.log)
            if k % 7 == 0 and init:
                init = init[:-1]
            elif k % 7 == 1 and len(init) > 2:
                init = init[1:] + init[:1]
            elif k % 7 == 3:
                init = list(self.order[:-1])    # a prefix of this order
            elif k % 7 == 4:
                init = []
            elif k % 7 == 5:
                init = [self.U[-1]]             # one variable
            elif k % 7 == 6 and init:
                init = init[:1]
            pk = self.kind
            if k % 4 == 2 and not self.cfg.get('reordering'):
                # a manager of the other kind (dd.bdd <-> dd.autoref)
                pk = 'autoref' if self.kind == 'bdd' else 'bdd'
            cfg = dict(kind=pk, nmax=self.nmax,
                       semantic=self.cfg.get('semantic', 1),
                       order=init or None, init_vars=0)
            if self.cfg.get('reordering'):
                cfg.update(reordering=True,
                           reorder_starts=self.cfg.get('reorder_starts'))
            peer = World(cfg)
            peer.is_peer = True
            peer.check()
            self.peer = peer
            self.label('peer.created')
        return peer

    def op_peer(self, k, a, b):
        """One ordinary operation on the second manager."""
        import inspect
        peer = self._get_peer()
        name = self.PEER_OPS[k % len(self.PEER_OPS)]
        fn = getattr(peer, 'op_' + name)
        ar = len(inspect.signature(fn).parameters)
        args = [a, b, a * 7 + b, b * 5 + a, 1, 1][:ar]
        if name in ('build', 'apply'):
            args[-1] = 1        # keep the result
        peer.step([name] + args)
        self.label('peer.' + name)

    def op_xcopy(self, i, form, d):
        """Copy a held function to / from the second manager."""
        import dd._copy as _copy
        peer = self._get_peer()
        src, dst = (self, peer) if d % 2 == 0 else (peer, self)
        if not src.held:
            return
        e = src.held[i % len(src.held)]
        supp = [src.U[j] for j in sorted(tt.support(e.t, src.n))]
        missing = [x for x in supp if x not in dst.order]
        form0 = form
        form %= 3
        snap = (dict(src.b._succ), dict(src.b._ref), dict(src.b.vars))

        def do():
            if src.kind != dst.kind:
                # between a dd.bdd manager and the manager wrapped by a
                # dd.autoref one: the dd.bdd-level functions
                self.label('xcopy.mixed_kinds')
                u = src.node(e.ref)
                if form == 1:
                    r_ = src._bddmod.copy_bdd(u, src.b, dst.b)
                else:
                    r_ = src.b.copy(u, dst.b)
                if dst.kind == 'autoref':
                    return dst._ar.Function(r_, dst.A)
                return r_
            if src.kind == 'autoref':
                if form == 0:
                    return src.A.copy(e.ref, dst.A)
                if form == 1:
                    return src._ar.copy_bdd(e.ref, dst.A)
                rs_ = _copy.copy_bdds_from(iter([e.ref]), dst.A)
                require(len(rs_) == 1, 'xcopy.copy_bdds_from_length',
                        dict(got=len(rs_)))
                return rs_[0]
            u = src.node(e.ref)
            if form == 1:
                return src._bddmod.copy_bdd(u, src.b, dst.b)
            return src.b.copy(u, dst.b)
        if missing:
            try:
                do()
            except src._bddmod._NeedsReordering:
                raise Violation('xcopy.signal_escaped')
            except Violation:
                raise
            except Exception:
                self.label('xcopy.rejected_missing_variable')
                gc.collect()
            else:
                raise Violation('xcopy.missing_variable_accepted',
                                dict(missing=missing))
        else:
            r = do()
            dst.hold(r, e.t, 1)
            r = None
            if (form0 >> 3) & 1:
                # the copy is released and collected in the target, other
                # functions take the freed node numbers there, and the
                # same function is copied again
                dst.op_drop(len(dst.held) - 1)
                gc.collect()
                dst.api.collect_garbage()
                dst.op_build((i * 2654435761 + d) & dst.F, form0 >> 4, 1)
                dst.op_build((i * 40503 + 7 * d + 1) & dst.F, 0, 1)
                r = do()
                dst.hold(r, e.t, 1)
                r = None
                self.label('xcopy.again_after_target_collection')
            self.label('xcopy.done')
            self.nontrivial.add('xcopy')
            if [x for x in src.order if x in dst.order] != \
                    [x for x in dst.order if x in src.order]:
                self.nontrivial.add('xcopy.other_order')
            if any(x not in dst.order for x in src.order):
                self.label('xcopy.target_lacks_a_variable')
        require((dict(src.b._succ), dict(src.b._ref), dict(src.b.vars))
                == snap, 'xcopy.source_changed')
        peer.check()

    def op_xcopy_vars(self, d, form=0):
        """copy_vars to / from the second manager: reproduces names and
        levels, or refuses."""
        import dd._copy as _copy
        peer = self._get_peer()
        src, dst = (self, peer) if d % 2 == 0 else (peer, self)
        # what a sequence of `add_var(name, level)` has to do
        have = {x: l for l, x in enumerate(dst.order)}
        used = set(have.values())
        added = {}
        conflict = False
        for x in list(src.b.vars):
            l = src.order.index(x)
            if x in have or x in added:
                if {**have, **added}[x] != l:
                    conflict = True
                    break
            elif l in used:
                conflict = True
                break
            else:
                added[x] = l
                used.add(l)
        final = {**have, **added}
        if sorted(final.values()) != list(range(len(final))):
            # the refusal (or an out-of-order completion) would pass
            # through a state with an empty level: not judged
            self.label('excluded.copy_vars_through_gap')
            return

        def do():
            if form % 2:
                # the generic function on whatever the two managers are
                self.label('copy_vars.generic')
                _copy.copy_vars(src.api, dst.api)
            elif src.kind == 'autoref' and dst.kind == 'autoref':
                src._ar.copy_vars(src.A, dst.A)
            else:
                _copy.copy_vars(src.b, dst.b)
        if conflict:
            dst.expect_error(do, ValueError, 'copy_vars.conflict_accepted')
            self.label('copy_vars.refused')
        else:
            do()
            self.label('copy_vars.done')
            for x in src.order:
                require(dst.b.vars.get(x) == src.b.vars[x],
                        'copy_vars.levels_differ',
                        dict(source=dict(src.b.vars),
                             target=dict(dst.b.vars)))
        dst.order = sorted(final, key=final.get)
        if added:
            self.nontrivial.add('copy_vars')
        peer.check()

    # collections -----------------------------------------------------
    def op_gc(self, rc=1):
        before = set(self.b._succ)
        self.api.collect_garbage()
        self.check_after_full_gc()
        freed = before - set(self.b._succ)
        if freed:
            self.label('gc.freed')
            self._freed = getattr(self, '_freed', set()) | freed
        if rc % 2:
            # (the battery leaves garbage that re-occupies the freed
            # numbers, so it is skipped every other time)
            self.recompute()

    def op_gc_roots(self, mask, rc=1):
        if self.kind != 'bdd':
            return self.op_gc(rc)
        nodes = sorted(self.b._succ)
        roots = [u for k, u in enumerate(nodes) if (mask >> (k % 30)) & 1]
        led = self.ledger()
        held_reach = reachable(self.b, [u for u, c in led.items() if c > 0])
        before = set(self.b._succ)
        self.b.collect_garbage(roots)
        require(held_reach <= set(self.b._succ), 'gc.deleted_reachable')
        if before - set(self.b._succ):
            self.label('gc_roots.freed')
            self._freed = getattr(self, '_freed', set()) | (
                before - set(self.b._succ))
        if rc % 2:
            self.recompute()

    def recompute(self):
        """Re-issue a battery of calls after a collection: a result
        remembered for a freed (possibly re-used) node number would show
        up as a wrong function here."""
        k = len(self.held)
        for a in range(min(k, 4)):
            for c in range(min(k, 4)):
                (u, tu), (v, tv) = self.pick(a + 2), self.pick(c + 2)
                for op in ('and', 'xor', '=>'):
                    r = self.api.apply(op, u, v)
                    got = Den(self.b, self.U)(self.node(r))
                    require(got == tt.BINARY[op](tu, tv, self.n),
                            'recompute.wrong_after_gc',
                            dict(op=op, a=a, c=c))

    # reordering ------------------------------------------------------
    def _swap_nontrivial(self, l):
        """Upper level has a node depending on the lower variable."""
        for u, (i, v, w) in self.b._succ.items():
            if i == l and u != 1:
                if self.b._succ[abs(v)][0] == l + 1 or \
                        self.b._succ[abs(w)][0] == l + 1:
                    return True
        return False

    def op_swap(self, l, form=0):
        n = len(self.order)
        if n < 2:
            return
        l %= (n - 1)
        x, y = self.order[l], self.order[l + 1]
        before = self._held_snapshot()
        form %= 4
        self.b.collect_garbage()     # swap does so too; makes nt exact
        if self._swap_nontrivial(l):
            self.label('swap.rewrite')
            self.nontrivial.add('swap')
        if form == 0:
            self.b.swap(l, l + 1)
        elif form == 1:
            self.b.swap(l + 1, l)
        elif form == 2:
            self.b.swap(x, y)
        else:
            self.b.swap(y, x)
        self.order[l], self.order[l + 1] = y, x
        self._same_identity(before)

    def _held_snapshot(self):
        return [(self.node(e.ref)) for e in self.held]

    def _same_identity(self, before):
        now = self._held_snapshot()
        require(now == before, 'reorder.identity_changed',
                dict(before=before, now=now))

    def _reorder_call(self, order=None):
        if self.kind == 'autoref':
            self.A.reorder(order)
        else:
            self._bddmod.reorder(self.b, order)

    def op_sift(self):
        before = self._held_snapshot()
        led = self.ledger()
        size0 = len(reachable(self.b, [u for u, c in led.items() if c > 0]))
        with_roots = len(self.log) % 3 == 0 and bool(self.held)
        if with_roots:
            self.label('sift.with_roots')
            self.b.roots = {self.node(e.ref) for e in self.held}
        try:
            self._reorder_call(None)
        finally:
            if with_roots:
                self.b.roots = set()
        actual = [self.b._level_to_var.get(l)
                  for l in range(len(self.b.vars))]
        require(sorted(actual) == sorted(self.order),
                'sift.order_not_permutation', dict(actual=actual))
        if actual != self.order:
            self.label('sift.changed_order')
            self.nontrivial.add('sift')
        self.order = actual
        require(len(self.b) <= size0, 'sift.grew',
                dict(before=size0, after=len(self.b)))
        self._same_identity(before)

    def op_reorder_to(self, p):
        n = len(self.order)
        if n < 1:
            return
        perms = list(itertools.islice(
            itertools.permutations(sorted(self.order)), 0, 720))
        target = list(perms[p % len(perms)])
        before = self._held_snapshot()
        if target != self.order:
            self.label('reorder_to.changed')
            self.nontrivial.add('reorder_to')
        # the order dict may list the names in any insertion order
        items = [(x, l) for l, x in enumerate(target)]
        k = (p // 720) % 4
        if k == 1:
            items.sort()
        elif k == 2:
            items.reverse()
        elif k == 3:
            random.Random(p).shuffle(items)
        # the optional attribute `roots` (also set by loading a
        # manager): edges, possibly complemented, of live nodes
        with_roots = bool((p >> 13) & 1) and self.held
        if with_roots:
            self.label('reorder_to.with_roots')
            self.b.roots = {self.node(e.ref) for e in self.held}
        try:
            self._reorder_call(dict(items))
        finally:
            if with_roots:
                self.b.roots = set()
        self.order = target
        self._same_identity(before)

    def op_reorder_pairs(self, p):
        """Disjoint pairs of distinct variables (the documented use)."""
        n = len(self.order)
        if n < 2:
            return
        names = sorted(self.order)
        r = random.Random(p)
        r.shuffle(names)
        k = 1 + p % (n // 2)
        pairs = {names[2 * i]: names[2 * i + 1] for i in range(k)}
        before = self._held_snapshot()
        self._bddmod.reorder_to_pairs(self.b, pairs)
        actual = [self.b._level_to_var.get(l)
                  for l in range(len(self.b.vars))]
        require(sorted(actual) == sorted(self.order),
                'pairs.order_not_permutation', dict(actual=actual))
        for x, y in pairs.items():
            require(abs(actual.index(x) - actual.index(y)) == 1,
                    'pairs.not_adjacent',
                    dict(pairs=pairs, order=actual))
        if actual != self.order:
            self.nontrivial.add('pairs')
        self.order = actual
        self._same_identity(before)

    def op_configure(self, on):
        self._set_reordering(bool(on % 2))

    # rejected calls (C17) ----------------------------------------------
    BAD_KINDS = [
        'var_undeclared', 'add_expr_undeclared', 'let_key_undeclared',
        'let_rename_value_undeclared', 'let_compose_key_undeclared',
        'quantify_undeclared', 'cube_undeclared', 'level_of_var_unknown',
        'var_at_level_unknown', 'apply_unknown_node', 'ite_unknown_node',
        'add_expr_unknown_ref', 'to_expr_unknown_node', 'count_unknown',
        'let_unknown_node', 'quantify_unknown_node', 'foreign_function',
        'unknown_operator', 'arity_unary_extra', 'arity_binary_missing',
        'arity_binary_extra', 'arity_ternary_missing', 'syntax_error',
        'add_var_conflict', 'reorder_partial_order', 'reorder_unknown_name',
        'constructor_bad_levels', 'undeclare_used', 'undeclare_unknown',
        'count_too_few', 'find_or_add_bad_level', 'find_or_add_bad_child',
        'swap_non_adjacent', 'swap_same', 'swap_unknown', 'load_missing',
        'load_wrong_extension', 'dump_wrong_extension', 'load_corrupt_pickle',
        'load_corrupt_json', 'image_precondition', 'let_mixed_values',
        'add_expr_deep_failure', 'cube_bad_after_progress',
        'let_compose_late_failure', 'max_nodes_full', 'copy_missing_var',
        'image_unknown_var_late', 'add_var_new_at_used_level',
        'copy_vars_conflict', 'load_pickle_level_conflict',
        'undeclare_mixed_unknown', 'undeclare_unused_then_used',
        'gc_roots_unknown_node', 'recursion_limit',
    ]

    def op_full(self, a, b):
        """The `max_nodes` limit is hit in the middle of an operation
        (a dedicated operation, so that histories reach it often)."""
        self.op_bad(self.BAD_KINDS.index('max_nodes_full'), a, b)

    def op_bad(self, kind, a, b):
        """One rejected call.  Whatever it raises must not be the internal
        reordering signal; afterwards the normal invariants run (in
        `step`), with the ledger unchanged."""
        kinds = self.BAD_KINDS
        name = kinds[kind % len(kinds)]
        before = (len(self.b), sum(self.b._ref.values()))
        fn = getattr(self, '_bad_' + name)
        raised = None
        with_roots = bool((a >> 9) & 1) and bool(self.held)
        if with_roots:
            # the optional `roots` attribute is in use
            self.b.roots = {self.node(e.ref) for e in self.held}
        try:
            try:
                fn(a, b)
            finally:
                if with_roots:
                    self.b.roots = set()
        except self._bddmod._NeedsReordering:
            raise Violation('bad.signal_escaped', dict(kind=name))
        except Violation:
            raise
        except Exception as e:
            raised = type(e).__name__
        gc.collect()
        if raised is None:
            self.label(f'bad.not_rejected.{name}')
        else:
            self.label(f'bad.rejected.{name}')
            self.label('rejected')
            after = (len(self.b), sum(self.b._ref.values()))
            if after != before:
                self.label('bad.rejected_after_partial_work')
                self.nontrivial.add('partial')
        # "subsequent operations ... behave normally": a rejected call
        # must not switch dynamic reordering off (or on)
        require(self.b.configure()['reordering'] == self.reordering,
                'bad.reordering_switch_changed',
                dict(kind=name, want=self.reordering))
        actual = [self.b._level_to_var.get(l)
                  for l in range(len(self.b.vars))]
        if sorted(map(str, actual)) == sorted(self.order):
            # a rejected reorder may have swapped some levels before it
            # failed: any valid order of the same names is acceptable
            self.order = actual

    def _u(self, i):
        return self.pick(i)[0]

    def _bad_var_undeclared(self, a, b):
        self.api.var('zz_undeclared')

    def _bad_add_expr_undeclared(self, a, b):
        x = self.decl(a) or 'a'
        self.api.add_expr(f'({x} /\\ ~ {x}) \\/ (zz_undeclared => {x})')

    def _bad_let_key_undeclared(self, a, b):
        self.api.let({'zz_undeclared': True}, self._u(a))

    def _bad_let_rename_value_undeclared(self, a, b):
        x = self.decl(a)
        if x is None:
            raise ValueError('no variable')
        self.api.let({x: 'zz_undeclared'}, self._u(b))

    def _bad_let_compose_key_undeclared(self, a, b):
        self.api.let({'zz_undeclared': self._u(a)}, self._u(b))

    def _bad_quantify_undeclared(self, a, b):
        self.api.quantify(self._u(a), {'zz_undeclared'}, forall=bool(b % 2))

    def _bad_cube_undeclared(self, a, b):
        self.api.cube({'zz_undeclared': True})

    def _bad_level_of_var_unknown(self, a, b):
        self.api.level_of_var('zz_undeclared')

    def _bad_var_at_level_unknown(self, a, b):
        self.api.var_at_level(len(self.order) + 3 + a % 5)

    def _missing(self, a):
        k = max(self.b._succ) + 7 + a % 50
        return k if a % 2 else -k

    def _bad_apply_unknown_node(self, a, b):
        if self.kind == 'autoref':
            raise ValueError('n/a')
        self.b.apply(BIN_OPS[b % len(BIN_OPS)], self._u(a), self._missing(a))

    def _bad_ite_unknown_node(self, a, b):
        if self.kind == 'autoref':
            raise ValueError('n/a')
        args = [self._u(a), self._u(b), self._u(a + b)]
        args[b % 3] = self._missing(a)
        self.b.ite(*args)

    def _bad_add_expr_unknown_ref(self, a, b):
        x = self.decl(a) or 'TRUE'
        self.api.add_expr(f'{x} /\\ @{self._missing(a)}')

    def _bad_to_expr_unknown_node(self, a, b):
        if self.kind == 'autoref':
            raise ValueError('n/a')
        self.b.to_expr(self._missing(a))

    def _bad_count_unknown(self, a, b):
        if self.kind == 'autoref':
            raise ValueError('n/a')
        self.b.count(self._missing(a))

    def _bad_let_unknown_node(self, a, b):
        if self.kind == 'autoref':
            raise ValueError('n/a')
        x = self.decl(a)
        if x is None:
            raise ValueError('no variable')
        self.b.let({x: True}, self._missing(b))

    def _bad_quantify_unknown_node(self, a, b):
        if self.kind == 'autoref':
            raise ValueError('n/a')
        x = self.decl(a)
        if x is None:
            raise ValueError('no variable')
        # documented to validate lazily: may succeed or raise
        self.b.quantify(self._missing(b), {x})

    def _bad_foreign_function(self, a, b):
        if self.kind != 'autoref':
            raise ValueError('n/a')
        other = self._ar.BDD()
        other.declare('a', 'b')
        f = other.add_expr('a /\\ b')
        k = b % 4
        if k == 0:
            self.A.apply('and', self._u(a), f)
        elif k == 1:
            self.A.ite(f, self._u(a), self._u(b))
        elif k == 2:
            self._u(a) & f
        else:
            self.A.quantify(f, {'a'})

    def _bad_unknown_operator(self, a, b):
        self.api.apply(['nand', '<=', '=', 'AND', '', '\\X'][a % 6],
                       self._u(a), self._u(b))

    def _bad_arity_unary_extra(self, a, b):
        self.api.apply(UN_OPS[a % 3], self._u(a), self._u(b))

    def _bad_arity_binary_missing(self, a, b):
        self.api.apply(BIN_OPS[a % len(BIN_OPS)], self._u(b))

    def _bad_arity_binary_extra(self, a, b):
        self.api.apply(BIN_OPS[a % len(BIN_OPS)], self._u(a), self._u(b),
                       self._u(a + 1))

    def _bad_arity_ternary_missing(self, a, b):
        self.api.apply('ite', self._u(a), self._u(b))

    def _bad_syntax_error(self, a, b):
        """A valid formula with one token deleted / duplicated / replaced
        at position b (every position is reachable)."""
        x = self.decl(a) or 'TRUE'
        y = self.decl(a + 1) or 'FALSE'
        u = self.node(self._u(a))
        toks = ['(', x, '/\\', '~', y, ')', '\\/', 'ite', '(', x, ',',
                f'@{u}', ',', 'FALSE', ')', '=>', '\\E', x, ':', y, '#', x]
        pos = b % len(toks)
        mode = (a // 3) % 4
        if mode == 0:
            del toks[pos]
        elif mode == 1:
            toks.insert(pos, toks[pos])
        elif mode == 2:
            toks[pos] = [')', '(', '$', ',', ':', '/\\', '~', '@'][a % 8]
        else:
            toks = toks[:pos]
        r = self.api.add_expr(' '.join(toks))
        # still a formula: nothing to compare (result is left as garbage)

    def _bad_add_var_conflict(self, a, b):
        n = len(self.order)
        if n < 2:
            raise ValueError('n/a')
        x = self.order[a % n]
        self.api.add_var(x, (self.order.index(x) + 1) % n)

    def _bad_add_var_new_at_used_level(self, a, b):
        """A new name at a level that another variable occupies."""
        n = len(self.order)
        if n < 1:
            raise ValueError('n/a')
        new = [x for x in self.U if x not in self.order]
        x = new[b % len(new)] if new and b % 2 else 'zz_new'
        self.api.add_var(x, a % n)

    def _bad_copy_vars_conflict(self, a, b):
        """copy_vars from a manager whose names sit at other levels."""
        n = len(self.order)
        if n < 2:
            raise ValueError('n/a')
        import dd._copy as _copy
        rot = self.order[1:] + self.order[:1]
        if self.kind == 'autoref':
            S = self._ar.BDD()
            S.declare(*rot)
            self._ar.copy_vars(S, self.A)
        else:
            S = _mk_bdd_class()()
            S.declare(*rot)
            _copy.copy_vars(S, self.b)

    def _bad_load_pickle_level_conflict(self, a, b):
        """Pickle dumped by a manager whose levels conflict with this
        one, loaded with levels=True: refused before anything new is
        declared."""
        import os
        n = len(self.order)
        if n < 2:
            raise ValueError('n/a')
        rot = self.order[1:] + self.order[:1]
        S = _mk_bdd_class()()
        S.declare(*rot)
        u = S.add_expr(f'{rot[0]} /\\ ~ {rot[-1]}')
        fname = os.path.join(os.getcwd(), 'conflict.p')
        S.dump(fname, roots=[u])
        try:
            self.api.load(fname, levels=True)
        finally:
            os.remove(fname)

    def _bad_reorder_partial_order(self, a, b):
        if len(self.order) < 2:
            raise ValueError('n/a')
        order = {x: l for l, x in enumerate(self.order[:-1])}
        self._reorder_call(order)

    def _bad_reorder_unknown_name(self, a, b):
        n = len(self.order)
        if n < 2:
            raise ValueError('n/a')
        names = list(reversed(self.order))
        names[a % n] = 'zz_undeclared'
        self._reorder_call({x: l for l, x in enumerate(names)})

    def _bad_constructor_bad_levels(self, a, b):
        self._bddmod.BDD({'a': 0, 'b': 2 + a % 3})

    def _bad_undeclare_used(self, a, b):
        full = {i for i, _, _ in self.b._succ.values()}
        used = [x for l, x in enumerate(self.order) if l in full]
        if not used:
            raise ValueError('n/a')
        self.b.undeclare_vars(used[a % len(used)])

    def _bad_undeclare_mixed_unknown(self, a, b):
        """An unused declared name together with an undeclared one."""
        unused = self.unused_names()
        if not unused:
            raise ValueError('n/a')
        x = unused[a % len(unused)]
        names = [x, 'zz_undeclared'] if b % 2 else ['zz_undeclared', x]
        self.b.undeclare_vars(*names)

    def _bad_undeclare_unused_then_used(self, a, b):
        """Unused names listed before (and after) one that is in use."""
        full = {i for i, _, _ in self.b._succ.values()}
        used = [x for l, x in enumerate(self.order) if l in full]
        unused = self.unused_names()
        if not used or not unused:
            raise ValueError('n/a')
        names = [unused[a % len(unused)], used[b % len(used)]] + \
            unused[:(a >> 3) % 2]
        self.b.undeclare_vars(*names)

    def _bad_gc_roots_unknown_node(self, a, b):
        """Rooted collection whose roots name a number that is no node,
        after (or before) unreferenced nodes that are."""
        zeros = sorted(u for u, c in self.b._ref.items()
                       if c == 0 and u != 1)
        missing = max(self.b._succ) + 2 + a % 5
        roots = zeros[:1 + a % 3] + [missing] if b % 2 else \
            [missing] + zeros[:1 + a % 3]
        self.b.collect_garbage(roots)

    def _bad_recursion_limit(self, a, b):
        """The interpreter's recursion limit is reached somewhere inside
        an operation (RecursionError)."""
        import sys
        import inspect
        x, y, z = self._u(a), self._u(b), self._u(a + b)
        if self.order and a % 2:
            # a long chain: the conjunction of all declared variables
            x = self.api.cube({v_: bool((b >> l_) & 1) or True
                               for l_, v_ in enumerate(self.order)})
        depth = len(inspect.stack(0))
        old = sys.getrecursionlimit()
        # every depth at which the error can land, one after the other
        # (a failed attempt must leave the manager usable for the next)
        # (as for `max_nodes`: not while a reordering can be triggered,
        # a level swap that is interrupted half-way is the open finding
        # `max-nodes-reached-during-swap`)
        if self.reordering:
            self.label('excluded.recursion_limit_with_reordering_on')
        hit = 0
        with self.quiet():
            for off in range(6, 46):
                sys.setrecursionlimit(depth + off)
                try:
                    r = self.api.ite(x, y, z)
                    r = self.api.apply('xor', r, x)
                    r = None
                except RecursionError:
                    hit += 1
                finally:
                    sys.setrecursionlimit(old)
        if hit:
            self.label('recursion_limit.hit', hit)
            raise RecursionError('n/a')

    def _bad_undeclare_unknown(self, a, b):
        self.b.undeclare_vars('zz_undeclared')

    def _bad_count_too_few(self, a, b):
        u, tu = self.pick(a)
        k = len(tt.support(tu, self.n))
        if k == 0:
            raise ValueError('n/a')
        self.api.count(u, b % k)

    def _bad_find_or_add_bad_level(self, a, b):
        lvl = [-1, len(self.order), len(self.order) + 2][a % 3]
        self.b.find_or_add(lvl, -1, 1)

    def _bad_find_or_add_bad_child(self, a, b):
        if not self.order:
            raise ValueError('n/a')
        if b % 2:
            self.b.find_or_add(0, self._missing(a), 1)
        else:
            self.b.find_or_add(0, -1, abs(self._missing(a)))

    def _bad_swap_non_adjacent(self, a, b):
        n = len(self.order)
        if n < 3:
            raise ValueError('n/a')
        self.b.swap(a % (n - 2), a % (n - 2) + 2)

    def _bad_swap_same(self, a, b):
        if not self.order:
            raise ValueError('n/a')
        self.b.swap(a % len(self.order), a % len(self.order))

    def _bad_swap_unknown(self, a, b):
        k = a % 3
        if k == 0:
            self.b.swap('zz_undeclared', self.decl(b) or 'a')
        elif k == 1:
            self.b.swap(-1, 0)
        else:
            self.b.swap(len(self.order) - 1, len(self.order))

    def _bad_load_missing(self, a, b):
        import os
        self.api.load(os.path.join(os.getcwd(),
                                   'no_such_file' + ['.p', '.json'][a % 2]))

    def _bad_load_wrong_extension(self, a, b):
        self.api.load('something.txt')

    def _bad_dump_wrong_extension(self, a, b):
        roots = [self._u(a)]
        self.api.dump('something.xyz', roots=roots)

    def _dump_some(self, fname, a):
        roots = [e.ref for e in self.held[:3]] or [self.const(True)]
        self.api.dump(fname, roots=roots)

    def _bad_load_corrupt_pickle(self, a, b):
        import os
        p = os.path.join(os.getcwd(), 'corrupt.p')
        self._dump_some(p, a)
        data = open(p, 'rb').read()
        cut = 1 + b % max(1, len(data) - 1)
        if a % 2:
            data = data[:cut]
        else:
            data = data[:cut] + bytes([(data[cut] + 1 + a) % 256]) + \
                data[cut + 1:]
        open(p, 'wb').write(data)
        try:
            self.api.load(p)
        finally:
            os.remove(p)

    def _bad_load_corrupt_json(self, a, b):
        import os
        if self.kind != 'autoref':
            raise ValueError('n/a')
        p = os.path.join(os.getcwd(), 'corrupt.json')
        self._dump_some(p, a)
        lines = open(p).read().split('\n')
        k = b % len(lines)
        mode = a % 4
        if mode == 0:
            lines[k] = '"9999": [7, "X", 3'
        elif mode == 1:
            lines = lines[:k]
        elif mode == 2:
            lines[k] = ',\n"77": [0, "88", "89"]'
        else:
            lines[k] = lines[k].replace('[', '[99, ', 1)
        open(p, 'w').write('\n'.join(lines))
        try:
            self.api.load(p)
        finally:
            os.remove(p)

    def _bad_image_precondition(self, a, b):
        n = len(self.order)
        if n < 2:
            raise ValueError('n/a')
        x, y = self.order[a % n], self.order[(a + 1) % n]
        u = self.api.var(y)
        # rename target y is in the support and not quantified
        if self.kind == 'autoref':
            self._ar.image(u, u, {x: y}, set())
        else:
            self._bddmod.image(u, u, {x: y}, set(), self.b)

    def _bad_let_mixed_values(self, a, b):
        x, y = self.decl(a), self.decl(a + 1)
        if x is None or x == y:
            raise ValueError('n/a')
        # documented: homogeneous values; a mixed dict is rejected or
        # misread, never allowed to corrupt the manager
        self.api.let({x: True, y: 'zz_undeclared'}, self._u(b))

    def _bad_add_expr_deep_failure(self, a, b):
        """Fails after sub-formulas have already created nodes."""
        xs = self.order or ['TRUE']
        parts = [f'({xs[i % len(xs)]} # {xs[(i + 1) % len(xs)]})'
                 for i in range(2 + a % 3)]
        s = ' /\\ '.join(parts) + ' /\\ zz_undeclared'
        self.api.add_expr(s)

    def _bad_cube_bad_after_progress(self, a, b):
        d = {x: bool((a >> l) & 1) for l, x in enumerate(self.order)}
        d['zz_undeclared'] = True
        self.api.cube(d)

    def _bad_let_compose_late_failure(self, a, b):
        """Vector composition in which a later key is undeclared."""
        if len(self.order) < 1:
            raise ValueError('n/a')
        d = {self.order[0]: self._u(a), 'zz_undeclared': self._u(b)}
        self.api.let(d, self._u(a + b))

    def _bad_max_nodes_full(self, a, b):
        """The documented `max_nodes` limit is hit in the middle of an
        operation (RuntimeError 'full')."""
        old = self.b.max_nodes
        self.b.max_nodes = max(self.b._succ) + 1 + a % 3
        # Known finding `max-nodes-reached-during-swap` (C17): the limit
        # hit inside a level swap of a dynamic reordering leaves the
        # manager half-swapped.  Excluded by construction: the limit is
        # only lowered while reordering requests are off.
        if self.reordering:
            self.label('excluded.max_nodes_with_reordering_on')
        try:
            with self.quiet():
                x, y = self._u(a), self._u(b)
                r = self.api.apply('xor', x, y)
                r = self.api.apply('and', r, self._u(a + b))
            # stayed below the limit: nothing to judge
        finally:
            self.b.max_nodes = old

    def _bad_copy_missing_var(self, a, b):
        """Copy from a manager that has a variable this one lacks: fails
        inside the copy."""
        if self.kind == 'autoref':
            S = self._ar.BDD()
            S.declare('zz_other', *self.order)
            f = S.add_expr('zz_other /\\ ' + (self.order[0]
                                               if self.order else 'TRUE'))
            if b % 2:
                S.copy(f, self.A)
            else:
                self._ar.copy_bdd(f, self.A)
        else:
            S = _mk_bdd_class()()
            S.declare('zz_other', *self.order)
            f = S.add_expr('zz_other \\/ ' + (self.order[-1]
                                                if self.order else 'FALSE'))
            S.copy(f, self.b)

    def _bad_image_unknown_var_late(self, a, b):
        """preimage with a quantified name that is not declared."""
        n = len(self.order)
        if n < 2:
            raise ValueError('n/a')
        x, y = self.order[a % (n - 1)], self.order[a % (n - 1) + 1]
        u, v = self._u(a), self._u(b)
        if self.kind == 'autoref':
            self._ar.preimage(u, v, {x: y}, {'zz_undeclared'})
        else:
            self._bddmod.preimage(u, v, {x: y}, {'zz_undeclared'}, self.b)

    # shutdown (dd.autoref, C08) ---------------------------------------
    def shutdown(self, perm_seed=0):
        """Drop every handle in a generated order, then run the
        manager's own shutdown check and a collection."""
        if getattr(self, 'peer', None) is not None:
            self.peer.shutdown(perm_seed + 1)
        r = random.Random(perm_seed)
        while self.held:
            e = self.held.pop(r.randrange(len(self.held)))
            if self.kind == 'bdd':
                for _ in range(1 + e.extra):
                    self.b.decref(e.ref)
            else:
                for _ in range(e.extra):
                    self.A.decref(e.ref)
            e.ref = None
        gc.collect()
        self.check()
        self.api.collect_garbage()
        require(len(self.b) == 1, 'shutdown.nodes_remain',
                dict(n=len(self.b), ref=dict(self.b._ref)))
        import dd.bdd as _bdd
        try:
            _bdd.BDD.__del__(self.b)
        except AssertionError:
            raise Violation('shutdown.check_failed')
        # re-arm so that the interpreter's own __del__ call is harmless
        self.b._ref[1] = 1


# ---------------------------------------------------------------- driving
def run_history(hist, on_world=None):
    """Execute a history; raises Violation (or a dd exception)."""
    w = World(hist.get('cfg'))
    if on_world:
        on_world(w)
    w.run(hist['ops'])
    if hist.get('shutdown') is not None:
        w.shutdown(hist['shutdown'])
    return w


def fails(hist, bucket_of):
    """Return the bucket in which `hist` fails, or None."""
    try:
        w = run_history(hist)
    except Violation as v:
        return bucket_of(v)
    except Exception as e:
        from .viol import innermost_dd_frame
        fr = innermost_dd_frame(e)
        if fr == 'harness':
            return None
        return bucket_of(e)
    finally:
        gc.collect()
    return None


def bucket_key(e):
    from .viol import innermost_dd_frame
    if isinstance(e, Violation):
        return f'{e.what}@{innermost_dd_frame(e)}'
    return f'exception.{type(e).__name__}@{innermost_dd_frame(e)}'


def ddmin(hist, bucket, budget=400):
    """Delta-debug the op list, keeping the failure in `bucket`."""
    ops = list(hist['ops'])
    calls = 0

    def test(cand):
        nonlocal calls
        calls += 1
        h = dict(hist, ops=cand)
        return fails(h, bucket_key) == bucket
    n = 2
    while len(ops) >= 2 and calls < budget:
        chunk = max(1, len(ops) // n)
        reduced = False
        for start in range(0, len(ops), chunk):
            cand = ops[:start] + ops[start + chunk:]
            if cand and test(cand):
                ops = cand
                n = max(n - 1, 2)
                reduced = True
                break
            if calls >= budget:
                break
        if not reduced:
            if chunk == 1:
                break
            n = min(n * 2, len(ops))
    return dict(hist, ops=ops)


def run_and_collect(hist, out, shrink=True):
    """Run one history inside a worker; record a (minimised) failure."""
    try:
        w = run_history(hist)
        return w
    except Exception as e:
        from .viol import innermost_dd_frame
        if not isinstance(e, Violation) and \
                innermost_dd_frame(e) == 'harness':
            raise
        b = bucket_key(e)
        what, frame = b.split('@', 1)
        detail = getattr(e, 'detail', None) or repr(e)[:300]
        small = hist
        if shrink and b not in out.failures:
            try:
                small = ddmin(hist, b)
            except Exception:
                small = hist
        out.fail(what, dict(kind='history', **small), detail, frame)
        return None
    finally:
        gc.collect()


# Hypothesis strategies ---------------------------------------------------
def op_strategy(alphabet):
    """alphabet: list of (name, [max_arg, ...], weight).

    The name is drawn from a list in which each name occurs `weight`
    times (`one_of` with a repeated strategy does not weight: it was
    measured to draw the alternatives uniformly)."""
    from hypothesis import strategies as st
    args = {}
    names = []
    # generation is biased towards the first element: make it `build`
    alphabet = sorted(alphabet, key=lambda x: x[0] != 'build')
    for name, maxes, weight in alphabet:
        args[name] = st.tuples(
            st.just(name), *[st.integers(0, m) for m in maxes]).map(list)
        names.extend([name] * weight)
    return st.sampled_from(names).flatmap(lambda nm_: args[nm_])
