"""Violation bookkeeping shared by all property modules."""
import hashlib
import json
import traceback


class Violation(Exception):
    """The code under test broke the property (not a harness error)."""

    def __init__(self, what, detail=None):
        super().__init__(what)
        self.what = what        # short assertion name (bucket key part)
        self.detail = detail


def require(cond, what, detail=None):
    if not cond:
        raise Violation(what, detail)


def innermost_dd_frame(exc):
    """(file, function) of the innermost frame inside the dd package."""
    tb = traceback.extract_tb(exc.__traceback__)
    for fr in reversed(tb):
        fn = fr.filename.replace('\\', '/')
        if '/dd/' in fn and '/harness/' not in fn:
            return f'{fn.rsplit("/", 1)[1]}:{fr.name}'
    return 'harness'


def fp(obj):
    """64-bit fingerprint of a JSON-able case."""
    s = json.dumps(obj, sort_keys=True, default=str)
    return int.from_bytes(
        hashlib.blake2b(s.encode(), digest_size=8).digest(), 'big')
