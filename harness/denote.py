"""Independent evaluators: walk `succ` only.

`Den(bdd, names)` memoises node -> table for one manager.  The memo is
only valid while no node is deleted or rewritten; call `reset()` after
any collection, swap, reordering or (un)declaration.
"""
from . import tt


class Den:
    def __init__(self, bdd, names):
        self.bdd = bdd          # dd.bdd.BDD
        self.names = tuple(names)
        self.n = len(self.names)
        self.idx = {x: j for j, x in enumerate(self.names)}
        self.memo = {}

    def reset(self):
        self.memo = {}

    def __call__(self, u):
        r = self._node(abs(u))
        return r if u > 0 else (~r & tt.full(self.n))

    def _node(self, a):
        memo = self.memo
        r = memo.get(a)
        if r is not None:
            return r
        n = self.n
        F = tt.full(n)
        # iterative post-order (no recursion limit issues)
        stack = [a]
        succ = self.bdd.succ
        limit = 4 * len(self.bdd) + 64
        while stack:
            if len(stack) > limit:
                from .viol import Violation
                raise Violation('denote.cycle_in_diagram', dict(node=a))
            x = stack[-1]
            if x in memo:
                stack.pop()
                continue
            if x == 1:
                memo[1] = F
                stack.pop()
                continue
            i, v, w = succ(x)
            av, aw = abs(v), abs(w)
            pending = False
            if av not in memo:
                stack.append(av)
                pending = True
            if aw not in memo:
                stack.append(aw)
                pending = True
            if pending:
                continue
            stack.pop()
            lo = memo[av]
            if v < 0:
                lo = ~lo & F
            hi = memo[aw]
            if w < 0:
                hi = ~hi & F
            xv = tt.var(n, self.idx[self.bdd.var_at_level(i)])
            memo[x] = ((xv & hi) | (~xv & lo)) & F
        return memo[a]


def denote_once(bdd, u, names):
    return Den(bdd, names)(u)


class Builder:
    """Build a table into a `dd.bdd.BDD` node by node with
    `find_or_add` (Shannon expansion in the current order).  Uses
    neither `ite` nor `apply`.
    """

    def __init__(self, bdd, names):
        self.bdd = bdd
        self.names = tuple(names)
        self.n = len(self.names)
        self.idx = {x: j for j, x in enumerate(self.names)}
        self.memo = {}

    def reset(self):
        self.memo = {}

    def __call__(self, t):
        n = self.n
        F = tt.full(n)
        nv = len(self.bdd.vars)
        # declared variables outside `names` are never depended on
        order = [self.idx.get(self.bdd.var_at_level(l)) for l in range(nv)]
        memo = self.memo

        def rec(t, level):
            if t == F:
                return 1
            if t == 0:
                return -1
            r = memo.get(t)
            if r is not None:
                return r
            for l in range(level, nv):
                j = order[l]
                if j is None:
                    continue
                c0 = tt.cof(t, n, j, 0)
                c1 = tt.cof(t, n, j, 1)
                if c0 != c1:
                    r = self.bdd.find_or_add(
                        l, rec(c0, l + 1), rec(c1, l + 1))
                    memo[t] = r
                    return r
            raise AssertionError(
                'table depends on an undeclared variable')
        return rec(t, 0)


def reachable(bdd, roots):
    """Nodes (positive ints) reachable from `roots`, incl. terminal."""
    seen = {1}
    stack = [abs(u) for u in roots]
    while stack:
        a = stack.pop()
        if a in seen:
            continue
        seen.add(a)
        _, v, w = bdd.succ(a)
        stack.append(abs(v))
        stack.append(abs(w))
    return seen
