"""Shared driver for history-based properties (C02, C06, C07, C08, C09,
C14, C17): Hypothesis-generated op lists, exhaustive short sequences,
replay."""
import gc
import inspect
import itertools

from . import world as W
from .viol import Violation


def arity(name):
    fn = getattr(W.World, 'op_' + name)
    return len(inspect.signature(fn).parameters) - 1


def alphabet(spec):
    """spec: dict name -> weight (or (weight, [max args]))."""
    out = []
    for name, w in spec.items():
        if isinstance(w, tuple):
            w, maxes = w
        else:
            maxes = [65535] * arity(name)
        out.append((name, maxes, w))
    return out


COMMON = {'fork': 2, 'full': 1, 'mutate_views': 1, 'views': 1, 'xcopy': 1,
          'peer': 1, 'xcopy_vars': 1, 'file_roundtrip': 1, 'queries': 1,
          'traverse': 1, 'add_var': 1, 'decref_zero': 1, 'incref': 1,
          'decref': 1, 'bad': (2, [len(W.World.BAD_KINDS) - 1, 65535,
                                   65535])}


def run_random(spec, out, alpha, nontrivial, shutdown=False):
    """Hypothesis-generated histories.  Failures are collected (not
    raised) so that generation continues and several root causes are
    reported; each new bucket is minimised with ddmin."""
    import hypothesis
    from hypothesis import given, settings, strategies as st, HealthCheck

    # cross-cutting operations join every alphabet with a small weight
    alpha = dict(COMMON, **alpha)
    for k_ in spec.get('exclude', ()):
        alpha.pop(k_, None)
    ops = W.op_strategy(alphabet(alpha))
    cfgs = spec['cfgs']

    @hypothesis.seed(spec['seed'])
    @settings(max_examples=spec['examples'], deadline=None, database=None,
              suppress_health_check=list(HealthCheck),
              phases=[hypothesis.Phase.generate])
    @given(st.sampled_from(cfgs),
           st.integers(spec.get('min_len', 6), spec.get('max_len', 40)).flatmap(
               lambda k: st.lists(ops, min_size=k, max_size=k)),
           st.integers(0, 1000))
    def test(cfg, oplist, sd):
        if 'ctor' not in cfg and sd % 6 >= 4:
            # how the initial variables get declared: BDD(levels) with
            # the dict in another insertion order, or copy_vars from a
            # reordered manager
            cfg = dict(cfg, ctor=('levels', 'copy_vars')[sd % 6 - 4],
                       ctor_seed=sd)
        if sd % 5 == 0 and 'log' not in cfg:
            cfg = dict(cfg, log=True)
        hist = dict(cfg=cfg, ops=oplist)
        if spec.get('pyopt'):
            hist['pyopt'] = True
        if shutdown:
            hist['shutdown'] = sd
        w = W.run_and_collect(hist, out)
        if w is None:
            out.case(False, hist)
            return
        nt = nontrivial(w)
        out.case(nt, hist)
        for k, v in w.labels.items():
            out.label(k, v)
        out.label('histories.nontrivial' if nt else 'histories.trivial')
        out.label('steps', len(oplist))
        if nt:
            out.sample(hist)
        del w
    test()
    gc.collect()


def run_exhaustive(spec, out, nontrivial):
    """All sequences of length <= depth over a fixed-argument alphabet,
    by DFS with state cloning (each edge executed once).  The first
    letter is fixed by the shard."""
    letters = spec['letters']
    depth = spec['depth']
    cfg = spec['cfg']
    first = spec['first']
    counts = dict(seqs=0, nt=0, steps=0)

    def dfs(w, seq, d):
        counts['seqs'] += 1
        if nontrivial(w):
            counts['nt'] += 1
        if d == depth:
            return
        for op in letters:
            w2 = w.clone()
            counts['steps'] += 1
            try:
                w2.step(op)
            except Exception as e:
                from .viol import innermost_dd_frame
                if not isinstance(e, Violation) and \
                        innermost_dd_frame(e) == 'harness':
                    raise
                b = W.bucket_key(e)
                what, frame = b.split('@', 1)
                out.fail(what, dict(kind='history', cfg=cfg,
                                    ops=seq + [op]),
                         getattr(e, 'detail', None) or repr(e)[:300], frame)
                continue
            dfs(w2, seq + [op], d + 1)

    w = W.World(cfg)
    w.check()
    ok = True
    try:
        w.step(first)
    except Exception as e:
        from .viol import innermost_dd_frame
        if not isinstance(e, Violation) and \
                innermost_dd_frame(e) == 'harness':
            raise
        b = W.bucket_key(e)
        what, frame = b.split('@', 1)
        out.fail(what, dict(kind='history', cfg=cfg, ops=[first]),
                 getattr(e, 'detail', None) or repr(e)[:300], frame)
        ok = False
    if ok:
        dfs(w, [first], 1)
    out.count(counts['seqs'], counts['nt'])
    out.label('exhaustive.steps', counts['steps'])
    out.sample(dict(kind='history', cfg=cfg,
                    ops=[first] + letters[:depth - 1],
                    note='one of the enumerated sequences'))
    out.exhaustive = True


def exhaustive_plan(cfg, letters, depth, seed):
    return [dict(kind='exhaustive', cfg=cfg, letters=letters, depth=depth,
                 first=op, seed=seed) for op in letters]


def replay_into(case, out):
    hist = dict(cfg=case.get('cfg'), ops=case['ops'])
    if 'shutdown' in case:
        hist['shutdown'] = case['shutdown']
    W.run_and_collect(hist, out, shrink=False)
    out.count(1, 0)
