"""Entry point behind /verif/check.

./check <ID> [--tier quick|thorough] [--replay PATH] [--jobs N]

exit 0: property held on everything explored (KNOWN-FINDING lines allowed)
exit 1: `VIOLATION property=<ID> replay=<path>` printed
exit 2: harness error / inconclusive
"""
import argparse
import concurrent.futures as cf
import fnmatch
import glob
import hashlib
import importlib
import json
import os
import shutil
import subprocess
import sys
import tempfile
import time

from . import env

PY = sys.executable
WATCHDOG_S = dict(quick=900, thorough=4 * 3600)


def _hashseed(seed, k):
    h = hashlib.blake2b(f'{seed}:{k}'.encode(), digest_size=4).digest()
    return int.from_bytes(h, 'big') % 4294967295


def run_shard(pid, spec, k, seed, tier, scratch_root):
    d = tempfile.mkdtemp(prefix=f'w{k}-', dir=scratch_root)
    spec_path = os.path.join(d, 'spec.json')
    out_path = os.path.join(d, 'out.json')
    with open(spec_path, 'w') as f:
        json.dump(spec, f)
    e = dict(os.environ)
    e['PYTHONHASHSEED'] = str(spec.get('hashseed', _hashseed(seed, k)))
    e['PYTHONPATH'] = env.VERIF + os.pathsep + e.get('PYTHONPATH', '')
    e['DD_REPO'] = env.DD_REPO
    e['DD_VERIF'] = '1'
    e['PYTHONDONTWRITEBYTECODE'] = '1'
    cwd = os.path.join(d, 'cwd')
    os.mkdir(cwd)
    t0 = time.time()
    try:
        p = subprocess.run(
            [PY] + (['-O'] if (spec.get('pyopt') or (
                spec.get('case') or {}).get('pyopt')) else []) +
            ['-m', 'harness.worker', pid, spec_path, out_path],
            cwd=cwd, env=e, capture_output=True, text=True,
            timeout=WATCHDOG_S[tier])
    except subprocess.TimeoutExpired:
        shutil.rmtree(d, ignore_errors=True)
        return dict(error=f'watchdog: shard {k} exceeded '
                    f'{WATCHDOG_S[tier]} s (inconclusive)', spec=spec)
    try:
        with open(out_path) as f:
            res = json.load(f)
    except Exception:
        res = dict(error=f'worker {k} died rc={p.returncode}\n'
                   f'{p.stderr[-3000:]}', spec=spec)
    res['wall_s'] = time.time() - t0
    res['hashseed'] = int(e['PYTHONHASHSEED'])
    shutil.rmtree(d, ignore_errors=True)
    return res


def load_known():
    path = os.path.join(env.VERIF, 'KNOWN_FINDINGS.json')
    if not os.path.exists(path):
        return []
    with open(path) as f:
        return json.load(f).get('findings', [])


def main(argv=None):
    ap = argparse.ArgumentParser()
    ap.add_argument('pid')
    ap.add_argument('--tier', default=os.environ.get('VERIF_TIER', 'quick'),
                    choices=['quick', 'thorough'])
    ap.add_argument('--replay')
    ap.add_argument('--jobs', type=int,
                    default=int(os.environ.get('VERIF_JOBS', '16')))
    a = ap.parse_args(argv)
    pid = a.pid.upper()
    try:
        seed = int(os.environ.get('VERIF_SEED', '1'))
    except ValueError:
        seed = 1
    t0 = time.time()
    try:
        env.setup()
        mod = importlib.import_module(f'harness.props.{pid.lower()}')
    except Exception as e:
        print(f'HARNESS-ERROR: {e!r}')
        return 2
    scratch_root = tempfile.mkdtemp(prefix=f'ddverif-{pid}-')
    try:
        return _main(a, pid, seed, mod, scratch_root, t0)
    finally:
        shutil.rmtree(scratch_root, ignore_errors=True)


def _main(a, pid, seed, mod, scratch_root, t0):
    tier = a.tier
    if a.replay:
        with open(a.replay) as f:
            rp = json.load(f)
        spec = dict(kind='__replay__', case=rp['case'])
        if 'hashseed' in rp:
            spec['hashseed'] = rp['hashseed']
        res = run_shard(pid, spec, 0, seed, 'quick', scratch_root)
        if 'error' in res:
            print('HARNESS-ERROR:', res['error'])
            return 2
        if res['failures']:
            for b, lst in res['failures'].items():
                print(f'replay still fails: {b}: {lst[0]["detail"]}')
            print(f'VIOLATION property={pid} replay={a.replay}')
            return 1
        print(f'replay passes: property={pid} {a.replay}')
        return 0
    # regression tier first: every minimised failure ever kept
    specs = []
    reg = sorted(glob.glob(os.path.join(
        env.VERIF, 'replays', 'regress', f'{pid}-*.json')))
    for path in reg:
        with open(path) as f:
            rp = json.load(f)
        s = dict(kind='__replay__', case=rp['case'], regress=path)
        if 'hashseed' in rp:
            s['hashseed'] = rp['hashseed']
        specs.append(s)
    plan = mod.plan(tier, seed)
    specs.extend(plan)
    results = []
    with cf.ThreadPoolExecutor(max_workers=a.jobs) as ex:
        futs = [
            ex.submit(run_shard, pid, s, k, seed, tier, scratch_root)
            for k, s in enumerate(specs)]
        for fu in futs:
            results.append(fu.result())
    errors = [r for r in results if 'error' in r]
    if errors:
        for r in errors:
            print('HARNESS-ERROR in shard', json.dumps(r.get('spec'))[:300])
            print(r['error'])
        # violations found by the other shards are still reported (exit
        # 1); without any, the run is inconclusive (exit 2)
        results = [r for r in results if 'error' not in r]
        if not results:
            return 2
    # aggregate
    evaluations = sum(r['evaluations'] for r in results)
    hashes = set()
    for r in results:
        hashes.update(r['nt_hashes'])
    nt = sum(r['nt_exact'] for r in results) + len(hashes)
    labels = {}
    for r in results:
        for k, v in r['labels'].items():
            labels[k] = labels.get(k, 0) + v
    samples = []
    seen_kinds = set()
    for rnd in range(3):
        for r in results:
            kind = r['spec'].get('kind')
            if rnd == 0 and kind in seen_kinds:
                continue
            seen_kinds.add(kind)
            if len(r['samples']) > rnd and len(samples) < 12:
                samples.append(r['samples'][rnd])
    buckets = {}
    for r in results:
        for b, lst in r['failures'].items():
            for f in lst:
                f = dict(f)
                f['hashseed'] = r['hashseed']
                if r['spec'].get('regress'):
                    f['regress'] = r['spec']['regress']
                buckets.setdefault(b, []).append(f)
    known = [k for k in load_known()
             if k.get('property') == pid and k.get('status') == 'open']
    # probes for open known findings (the search excludes them)
    known_lines = []
    if hasattr(mod, 'probes'):
        for key, what, reproduces in mod.probes():
            listed = [k for k in known if k.get('key') == key]
            if not listed:
                if reproduces:
                    buckets.setdefault(f'probe.{key}@probe', []).append(
                        dict(what=f'probe.{key}', frame='probe',
                             case=dict(kind='probe', key=key),
                             detail=what, hashseed=0))
                continue
            if reproduces:
                known_lines.append(
                    f'KNOWN-FINDING: property={pid} {key}: {what}')
    violations = 0
    out_lines = []
    outdir = os.environ.get('VERIF_OUT') or env.VERIF
    os.makedirs(os.path.join(outdir, 'replays'), exist_ok=True)
    for b, lst in sorted(buckets.items()):
        lst.sort(key=lambda f: len(json.dumps(f['case'], default=str)))
        f = lst[0]
        matched = [k for k in known
                   if fnmatch.fnmatch(b, k.get('bucket', '\0'))]
        if matched:
            known_lines.append(
                f'KNOWN-FINDING: property={pid} {matched[0]["key"]}: '
                f'{matched[0].get("what", b)}')
            continue
        violations += 1
        h = hashlib.blake2b(b.encode(), digest_size=4).hexdigest()
        path = f.get('regress') or os.path.join(
            outdir, 'replays', f'{pid}-{h}.json')
        if not f.get('regress'):
            with open(path, 'w') as fd:
                json.dump(dict(
                    property=pid, bucket=b, detail=f['detail'],
                    hashseed=f['hashseed'], tier=tier, seed=seed,
                    case=f['case']), fd, indent=1, default=str)
        print(f'failure bucket {b}: {f["detail"]}')
        out_lines.append(f'VIOLATION property={pid} replay={path}')
    for line in sorted(set(known_lines)):
        print(line)
    exhaustive = all(r.get('exhaustive') for r in results
                     if r['spec'].get('kind') != '__replay__') and bool(plan)
    wall = time.time() - t0
    ev = dict(
        property_id=pid, tier=tier, seed=seed,
        level=mod.LEVEL,
        coverage=dict(
            evaluations=evaluations,
            distinct_nontrivial=nt,
            rule=mod.RULE,
            samples=samples,
            exhaustive=bool(exhaustive),
            labels=dict(sorted(labels.items())),
            shards=len(plan),
            regression_replays=len(reg),
            shard_summaries=[
                dict(spec={k: v for k, v in r['spec'].items()
                           if k != 'case'},
                     evaluations=r['evaluations'],
                     wall_s=round(r['wall_s'], 2),
                     notes=r.get('notes', []))
                for r in results][:64]),
        assumptions=list(mod.ASSUMPTIONS),
        wall_s=round(wall, 2),
        violations=violations)
    os.makedirs(os.path.join(outdir, 'evidence'), exist_ok=True)
    with open(os.path.join(outdir, 'evidence', f'{pid}.json'), 'w') as f:
        json.dump(ev, f, indent=1, default=str)
    print(f'{pid} tier={tier} seed={seed}: evaluations={evaluations} '
          f'distinct_nontrivial={nt} shards={len(plan)} '
          f'violations={violations} wall={wall:.1f}s')
    for line in out_lines:
        print(line)
    if violations:
        return 1
    return 2 if errors else 0


if __name__ == '__main__':
    try:
        sys.exit(main())
    except SystemExit:
        raise
    except BaseException as e:
        import traceback
        traceback.print_exc()
        print(f'HARNESS-ERROR: {e!r}')
        sys.exit(2)
