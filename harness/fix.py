"""Fixtures shared by property modules."""
import itertools
import random

from . import tt
from .denote import Den, Builder

# Some names are concatenations of other names, so that code which wrongly
# iterates over the characters of a name ends up at *declared* variables
# (a silent wrong result rather than an exception).
NAME_OF = dict(a='a', b='b', c='ab', d='d', e='ba', f='f', g='ga', h='h',
               i='i', j='ia', k="k'", l='l_2', m='m', n='n0', o="o''",
               p='_p')
NAMES = tuple(NAME_OF[ch] for ch in 'abcdefgh')


def names(n):
    return NAMES[:n]


def orders(n):
    return [list(p) for p in itertools.permutations(names(n))]


def pick_orders(n, k, seed):
    """k distinct orders of n names chosen by `seed` (all if k >= n!)."""
    allo = orders(n)
    if k >= len(allo):
        return allo
    r = random.Random(f'orders:{n}:{seed}')
    return r.sample(allo, k)


class NoDelBDD:
    """Mixin: skip the shutdown assertion (as tests/bdd_test.py does)."""


def new_bdd(order):
    import dd.bdd as _bdd

    class BDD(_bdd.BDD):
        def __del__(self):
            pass
    b = BDD()
    b.declare(*order)
    return b


def used_bdd(order, nm, seed):
    """A manager that has a history before the order `order` is reached:
    declared alphabetically, filled, partly collected (node numbers are
    freed and re-used), reordered by swaps, warm computed table."""
    r = random.Random(f'used:{seed}:{order}')
    b = new_bdd(sorted(order))
    n = len(nm)
    bd = Builder(b, nm)
    F = tt.full(n)
    keep = []
    for t in r.sample(range(F + 1), min(F + 1, 64)):
        u = bd(t)
        if r.random() < 0.4 and abs(u) != 1:
            b.incref(u)
            keep.append(u)
    for _ in range(20):
        x, y = r.choice(keep or [1]), r.choice(keep or [1])
        b.apply(r.choice(['and', 'or', 'xor', '=>']), x, y)
    b.collect_garbage()
    import dd.bdd as _bdd
    _bdd.reorder(b, {v: i for i, v in enumerate(order)})
    for u in keep[::2]:
        b.decref(u)
    bd2 = Builder(b, nm)
    for t in r.sample(range(F + 1), min(F + 1, 32)):
        bd2(t)
    return b


def build_all(b, nm):
    """Build every function of len(nm) variables; return table -> ref,
    all increfed so that collections only clear the computed table."""
    n = len(nm)
    bd = Builder(b, nm)
    refs = [bd(t) for t in range(tt.full(n) + 1)]
    for u in set(abs(x) for x in refs):
        b.incref(u)
    return refs


# ---------------------------------------------------------------------
# "sweep, perturb, sweep again": a manager with one unused variable `zz`
# at a given level, all functions of the other variables built and held
# ---------------------------------------------------------------------
PERTURBATIONS = ['undeclare_unused', 'declare_new', 'swap_top',
                 'swap_bottom', 'gc', 'reorder_reverse', 'sift',
                 'gc_roots_all']


def sandwich_manager(order, nm, pos):
    """Manager ordered as `order` with the unused variable 'zz' inserted
    at level `pos`; returns (bdd, refs) with every function of `nm`
    built node by node and held."""
    full = list(order)
    full.insert(pos, 'zz')
    b = new_bdd(full)
    refs = build_all(b, nm)
    return b, refs


def perturb(b, name):
    import dd.bdd as _bdd
    n = len(b.vars)
    if name == 'undeclare_unused':
        b.undeclare_vars('zz')
    elif name == 'declare_new':
        b.declare('zz_new')
    elif name == 'swap_top':
        b.swap(0, 1)
    elif name == 'swap_bottom':
        b.swap(n - 2, n - 1)
    elif name == 'gc':
        b.collect_garbage()
    elif name == 'reorder_reverse':
        order = sorted(b.vars, key=b.vars.get)
        _bdd.reorder(b, {x: l for l, x in enumerate(reversed(order))})
    elif name == 'sift':
        _bdd.reorder(b)
    elif name == 'gc_roots_all':
        b.collect_garbage(list(b._succ))
    else:
        raise ValueError(name)


def run_sandwich(spec, out, calls, nm=None):
    """Generic driver: `calls(b, refs, nm, den)` yields (case, fn) where
    fn() performs one API call and raises Violation if its result is
    wrong.  Everything is run, then the perturbation, then everything
    again."""
    from .denote import Den
    from . import inv
    nm = nm or names(3)
    b, refs = sandwich_manager(spec['order'], nm, spec['pos'])
    base = {k: spec[k] for k in ('kind', 'perturbation', 'pos', 'order',
                                 'seed')}
    universe = tuple(nm) + ('zz', 'zz_new')
    cnt = 0
    for phase in ('before', 'after'):
        if phase == 'after':
            if not out.guard(dict(base, phase='perturb'),
                             lambda: perturb(b, spec['perturbation'])):
                break
        den = Den(b, universe)
        for case, fn in calls(b, refs, nm, den):
            out.guard(dict(base, phase=phase, **case), fn)
            cnt += 1
    out.guard(dict(base, phase='structure'), lambda: inv.check_structure(b))
    out.count(cnt, cnt // 2)
    out.sample(dict(base, note='sweep, perturb, sweep again'))
    out.exhaustive = True


def sandwich_specs(tier, seed, kind='sandwich'):
    specs = []
    for pi, pert in enumerate(PERTURBATIONS):
        for pos in range(4):
            if tier == 'quick' and (pi + pos + seed) % 2:
                continue
            specs.append(dict(kind=kind, perturbation=pert, pos=pos,
                              order=orders(3)[(pi + pos) % 6], seed=seed))
    return specs


def modernize(obj):
    """Replays recorded before the universe got composite names spell
    orders with the old single letters: translate (idempotent)."""
    if isinstance(obj, dict):
        for k, v in obj.items():
            if (k in ('order', 'source', 'target')
                    and isinstance(v, list)
                    and all(isinstance(x, str) for x in v)):
                obj[k] = [NAME_OF.get(x, x) for x in v]
            else:
                modernize(v)
    elif isinstance(obj, list):
        for v in obj:
            modernize(v)
    return obj
