"""Worker process: run one shard of one property.

usage: python -m harness.worker <ID> <spec.json> <out.json>
"""
import importlib
import json
import os
import sys
import traceback
import warnings


def main():
    pid, spec_path, out_path = sys.argv[1:4]
    from . import env
    res = {}
    try:
        env.setup()
        from . import tt
        tt.selftest()
        from .collect import Collector
        mod = importlib.import_module(
            f'harness.props.{pid.lower()}')
        with open(spec_path) as f:
            spec = json.load(f)
        out = Collector(spec)
        sys.setrecursionlimit(6000)
        with warnings.catch_warnings():
            warnings.simplefilter('ignore')
            from .viol import Violation, innermost_dd_frame
            todo = spec
            if spec.get('kind') == '__replay__':
                from . import fix as _fix
                if not getattr(mod, 'OWN_NAMES', False):
                    _fix.modernize(spec['case'])
                if spec['case'].get('kind') == '__shard__':
                    todo = spec['case']['spec']
                else:
                    todo = None
            try:
                if todo is None:
                    mod.replay_into(spec['case'], out)
                else:
                    mod.run(todo, out)
            except Violation as v:
                # a violation outside any per-case guard (e.g. while
                # setting up a shard): reported against the whole shard
                out.fail('shard.' + v.what,
                         dict(kind='__shard__', spec=todo or spec),
                         v.detail, innermost_dd_frame(v))
            except Exception as e:
                fr = innermost_dd_frame(e)
                if fr == 'harness':
                    raise
                out.fail(f'shard.exception.{type(e).__name__}',
                         dict(kind='__shard__', spec=todo or spec),
                         repr(e)[:300], fr)
        res = out.result()
    except BaseException:
        res = dict(error=traceback.format_exc())
    with open(out_path, 'w') as f:
        json.dump(res, f, default=str)
    # skip interpreter teardown (dd.bdd.BDD.__del__ asserts on exit)
    sys.stdout.flush()
    sys.stderr.flush()
    os._exit(0)


if __name__ == '__main__':
    main()
