"""Worker process: run one shard of one property.

usage: python -m harness.worker <ID> <spec.json> <out.json>
"""
import importlib
import json
import os
import sys
import traceback
import warnings


def main():
    pid, spec_path, out_path = sys.argv[1:4]
    from . import env
    res = {}
    try:
        env.setup()
        from . import tt
        tt.selftest()
        from .collect import Collector
        mod = importlib.import_module(
            f'harness.props.{pid.lower()}')
        with open(spec_path) as f:
            spec = json.load(f)
        out = Collector(spec)
        sys.setrecursionlimit(20000)
        with warnings.catch_warnings():
            warnings.simplefilter('ignore')
            if spec.get('kind') == '__replay__':
                mod.replay_into(spec['case'], out)
            else:
                mod.run(spec, out)
        res = out.result()
    except BaseException:
        res = dict(error=traceback.format_exc())
    with open(out_path, 'w') as f:
        json.dump(res, f, default=str)
    # skip interpreter teardown (dd.bdd.BDD.__del__ asserts on exit)
    sys.stdout.flush()
    sys.stderr.flush()
    os._exit(0)


if __name__ == '__main__':
    main()
