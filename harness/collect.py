"""Per-shard result collector (runs inside a worker process)."""
import json
import traceback

from .viol import Violation, innermost_dd_frame, fp

MAX_SAMPLES = 6
MAX_FAILS_PER_BUCKET = 3
MAX_BUCKETS = 12
MAX_HASHES = 400_000


class Collector:
    def __init__(self, spec):
        self.spec = spec
        self.evaluations = 0
        self.nt_exact = 0           # distinct by construction
        self.nt_hashes = set()      # sampled cases: fingerprints
        self.samples = []
        self.labels = {}
        self.failures = {}          # bucket -> list of dict
        self.exhaustive = None
        self.notes = []

    # -- counting -----------------------------------------------------
    def count(self, evaluations, nontrivial_distinct=0):
        """Bulk count for enumerated (pairwise distinct) cases."""
        self.evaluations += evaluations
        self.nt_exact += nontrivial_distinct

    def case(self, nontrivial, key=None):
        """One sampled case; `key` identifies it for distinctness."""
        self.evaluations += 1
        if nontrivial and len(self.nt_hashes) < MAX_HASHES:
            self.nt_hashes.add(fp(key))

    def label(self, name, k=1):
        self.labels[name] = self.labels.get(name, 0) + k

    def sample(self, obj, force=False):
        if force or len(self.samples) < MAX_SAMPLES:
            self.samples.append(obj)

    def note(self, s):
        self.notes.append(s)

    # -- failures -----------------------------------------------------
    def fail(self, what, case, detail=None, frame='-'):
        bucket = f'{what}@{frame}'
        lst = self.failures.get(bucket)
        if lst is None:
            if len(self.failures) >= MAX_BUCKETS:
                return
            lst = self.failures[bucket] = []
        if len(lst) < MAX_FAILS_PER_BUCKET:
            lst.append(dict(
                what=what, frame=frame, case=case,
                detail=_short(detail)))
        self.label('FAIL:' + bucket)

    def guard(self, case, fn, *args):
        """Run `fn`; classify what it raises.

        - `Violation`            -> property failure
        - exception passing through a `dd` frame -> property failure
          (an operation on valid input must not raise)
        - anything else          -> harness error (propagates)
        Returns True when `fn` completed normally.
        """
        try:
            fn(*args)
            return True
        except Violation as v:
            self.fail(v.what, case() if callable(case) else case,
                      v.detail, innermost_dd_frame(v))
            return False
        except Exception as e:
            frame = innermost_dd_frame(e)
            if frame == 'harness':
                raise
            self.fail(f'exception.{type(e).__name__}',
                      case() if callable(case) else case,
                      ''.join(traceback.format_exception_only(e))[:300],
                      frame)
            return False

    @property
    def n_failures(self):
        return sum(len(v) for v in self.failures.values())

    def result(self):
        return dict(
            spec=self.spec,
            evaluations=self.evaluations,
            nt_exact=self.nt_exact,
            nt_hashes=sorted(self.nt_hashes),
            samples=self.samples,
            labels=self.labels,
            failures=self.failures,
            exhaustive=self.exhaustive,
            notes=self.notes)


def _short(x, limit=600):
    if x is None:
        return None
    try:
        s = json.dumps(x, default=str)
    except Exception:
        s = repr(x)
    return s[:limit]
