"""A small reference-counting model of CUDD's ZDD layer, precise enough to
run the hand-written recursions of `dd/cudd_zdd.pyx` (`_exist`, `_forall`,
`_disjoin`, `_conjoin`, `_compose`, `_find_or_add` and their roots and
`_c_*` entry points) after mechanical transliteration.

Nodes are Python objects with `index`, `T` (then), `E` (else), `ref`.
Reference semantics follow CUDD:

* a node returned by the unique table is *fresh*: `ref == 0`, and it holds
  one reference on each child;
* `cuddRef(n)`: `n.ref += 1`; `cuddDeref(n)`: `n.ref -= 1`;
* `Cudd_RecursiveDerefZdd(mgr, n)`: `n.ref -= 1`; when it reaches 0 the node
  dies and gives back the references on its children, recursively;
* a dead node found again by the unique table or the computed table is
  reclaimed (its children are referenced again);
* the computed table holds no references.

Semantics: a ZDD over variables 0..n-1 (index == level) denotes a family
of subsets of variables = set of satisfying assignments; as an `int`, bit
`m` is set iff assignment `m` (bit j of m = value of variable j) is in the
family — the same encoding as `harness/tt.py`.  A skipped level means the
variable is 0.
"""
from . import tt

CUDD_CONST_INDEX = 65535


class Node:
    __slots__ = ('index', 'T', 'E', 'ref', 'dead', 'uid')

    def __init__(self, index, T, E, uid):
        self.index = index
        self.T = T
        self.E = E
        self.ref = 0
        self.dead = False
        self.uid = uid

    def __repr__(self):
        return f'<n{self.uid} i={self.index} ref={self.ref}>'


class Manager:
    def __init__(self, n):
        self.n = n
        self.F = tt.full(n)
        self.reordered = 0
        self.one = Node(CUDD_CONST_INDEX, None, None, 1)
        self.zero = Node(CUDD_CONST_INDEX, None, None, 0)
        self.one.ref = self.zero.ref = 10 ** 9      # saturated
        self.unique = {}
        self.cache = {}
        self.uid = 2
        self.negative = False
        # fault injection on the unique table
        self.creations = 0
        self.armed = False      # faults / counting only inside the roots
        self.fail_at = None
        self.fail_kind = 'oom'
        self._fam = {}
        # CUDD keeps the universe ZDDs (univ[i]) permanently referenced
        self.permanent = {}
        u = self.node_for(self.F)
        self.univ = u
        self.ref(u)
        self.permanent = {x.uid: x.ref for x in self.unique.values()}

    # -- constants --------------------------------------------------
    def is_const(self, u):
        return u is self.one or u is self.zero

    # -- reference counting ----------------------------------------
    def ref(self, u):
        if not self.is_const(u):
            u.ref += 1

    def deref(self, u):
        if self.is_const(u):
            return
        u.ref -= 1
        if u.ref < 0:
            self.negative = True

    def rec_deref(self, u):
        stack = [u]
        while stack:
            x = stack.pop()
            if self.is_const(x):
                continue
            x.ref -= 1
            if x.ref < 0:
                self.negative = True
            if x.ref == 0 and not x.dead:
                x.dead = True
                stack.append(x.T)
                stack.append(x.E)

    def reclaim(self, u):
        """Bring a dead node back (children referenced again); the node
        itself stays at ref 0 (fresh)."""
        stack = [u]
        first = True
        while stack:
            x = stack.pop()
            if self.is_const(x):
                continue
            if x.dead:
                x.dead = False
                stack.append(x.T)
                stack.append(x.E)
            if not first:
                x.ref += 1
            first = False

    # -- unique table --------------------------------------------------
    def unique_inter(self, index, T, E):
        """cuddUniqueInterZdd(mgr, index, T, E); no reduction here."""
        key = (index, id(T), id(E))
        x = self.unique.get(key)
        if x is not None:
            if x.dead:
                self.reclaim(x)
            return x
        if self.fault_point():
            return None
        x = Node(index, T, E, self.uid)
        self.uid += 1
        self.unique[key] = x
        self.ref(T)
        self.ref(E)
        return x

    def get_node(self, index, T, E):
        """cuddZddGetNode: zero-suppression rule."""
        if T is self.zero:
            return E
        return self.unique_inter(index, T, E)

    # -- semantics ------------------------------------------------------
    def family(self, u):
        """int: set of assignments (over all n variables)."""
        if u is self.zero:
            return 0
        if u is self.one:
            return 1            # only the all-zero assignment
        r = self._fam.get(id(u))
        if r is None:
            e = self.family(u.E)
            t = self.family(u.T)
            # members of T get variable `index` set
            shifted = 0
            bit = 1 << u.index
            m = 0
            while t >> m:
                if (t >> m) & 1:
                    shifted |= 1 << (m | bit)
                m += 1
            r = e | shifted
            self._fam[id(u)] = r
        return r

    def node_for(self, fam, level=0):
        """Canonical node of a family (builds exactly the nodes of the
        result; a fresh node is returned with ref 0)."""
        n = self.n
        if fam == 0:
            return self.zero
        if level == n:
            return self.one if fam & 1 else self.zero
        # split on variable `level`: members without / with it; all
        # members have variables < level equal to 0 at this point
        bit = 1 << level
        e = t = 0
        m = 0
        while fam >> m:
            if (fam >> m) & 1:
                if m & bit:
                    t |= 1 << (m & ~bit)
                else:
                    e |= 1 << m
            m += 1
        E = self.node_for(e, level + 1)
        T = self.node_for(t, level + 1)
        if E is None or T is None:
            return None
        return self.get_node(level, T, E)

    def universe(self):
        return self.univ

    def live_refs(self):
        """References beyond the permanent ones of the universe."""
        out = {}
        for x in self.unique.values():
            k = x.ref - self.permanent.get(x.uid, 0)
            if k:
                out[x.uid] = k
        return out

    def fault_point(self):
        """One failure opportunity (a library call that may return
        NULL); True means: fail now."""
        if not self.armed:
            return False
        self.creations += 1
        if self.fail_at is not None and self.creations == self.fail_at:
            if self.fail_kind == 'reorder':
                self.reordered = 1
            return True
        return False

    # -- computed table -----------------------------------------------
    def cache_lookup(self, op, u, v):
        r = self.cache.get((op, id(u), id(v)))
        if r is not None and not self.is_const(r) and r.dead:
            self.reclaim(r)
        return r

    def cache_insert(self, op, u, v, r):
        self.cache[(op, id(u), id(v))] = r


def environment(mgr):
    """Names used by the transliterated functions of cudd_zdd.pyx."""
    e = {}
    e['CUDD_CONST_INDEX'] = CUDD_CONST_INDEX
    e['DD_ZERO'] = lambda m: mgr.zero
    e['DD_ONE'] = lambda m: mgr.one
    e['Cudd_ReadZddOne'] = lambda m, i: mgr.universe()
    e['Cudd_ReadZero'] = lambda m: mgr.zero
    e['Cudd_ReadInvPermZdd'] = lambda m, level: (
        level if 0 <= level < mgr.n else
        (CUDD_CONST_INDEX if level == CUDD_CONST_INDEX else -1))
    e['Cudd_ReadPermZdd'] = lambda m, index: (
        index if 0 <= index < mgr.n else
        (CUDD_CONST_INDEX if index == CUDD_CONST_INDEX else -1))
    e['Cudd_NodeReadIndex'] = lambda u: u.index
    e['cuddE'] = lambda u: u.E
    e['cuddT'] = lambda u: u.T
    e['cuddRef'] = mgr.ref
    e['Cudd_Ref'] = mgr.ref
    e['cuddDeref'] = mgr.deref
    e['Cudd_Deref'] = mgr.deref
    e['Cudd_RecursiveDerefZdd'] = lambda m, u: mgr.rec_deref(u)
    e['cuddCacheLookup2Zdd'] = lambda m, op, u, v: mgr.cache_lookup(
        op, u, v)
    e['cuddCacheInsert2'] = lambda m, op, u, v, r: mgr.cache_insert(
        op, u, v, r)
    e['cuddUniqueInterZdd'] = lambda m, index, T, E: mgr.unique_inter(
        index, T, E)

    def zdd_ite(m, f, g, h):
        # ZDD if-then-else on families (no complement: ~f is relative to
        # the universe).  The library call fails as a unit.
        if mgr.fault_point():
            return None
        ff, gg, hh = mgr.family(f), mgr.family(g), mgr.family(h)
        armed, mgr.armed = mgr.armed, False
        try:
            return mgr.node_for((ff & gg) | (~ff & hh & mgr.F))
        finally:
            mgr.armed = armed
    e['cuddZddIte'] = zdd_ite
    e['Cudd_zddIte'] = zdd_ite
    e['PyMem_Malloc'] = lambda k: [None] * k
    e['PyMem_Free'] = lambda v: None
    e['sizeof'] = lambda t: 1
    e['DdRef'] = object
    return e
